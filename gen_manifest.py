#!/usr/bin/env python3
"""Regenerates MANIFEST.json from the table below (dev-time helper; not used by checks)."""
import json, subprocess
ALL = ["C%02d" % i for i in range(1, 21)]
# id -> (level, technique, text, note)
CHECKS = {
 "C01": ("exploration", "bounded-exhaustive enumeration (shape x gap x sign x mode product) against an exact big-integer reference model",
         "Every pair from the coefficient-shape alphabet at every exponent gap of the gap alphabet, all sign combinations, Add and Sub, all six modes, plus decision-table drive of guard/sticky cells, cohort cancellation, range ends and DefaultRoundingMode sweep; each result compared with the exactly rounded sum.",
         "Exhaustive over shapes, not over all 2^128 digit values; trusts math/big and the independent BID decoder; model bound to the repository's Add/Sub vectors on every run."),
 "C02": ("exploration", "bounded-exhaustive enumeration (shape x shape, small integers, divisor shapes, range windows) against exact big-integer/rational reference model",
         "Every pair of coefficient shapes, every small integer multiplier/divisor up to the bound, long-division divisor shapes, every result decade in windows around the underflow and overflow thresholds, zeros, all sign combinations, Mul and Quo, six modes, DefaultRoundingMode sweep; compared with the exactly rounded product/quotient (tiny rule, overflow rule).",
         "Exhaustive over shapes, not digit values; trusts math/big and the independent decoder; model bound to the repository's Mul/Quo vectors on every run."),
 "C03": ("exploration", "bounded-exhaustive enumeration (shape x shape x gap incl. gaps to 12287) against big-integer truncated division",
         "Every pair of coefficient shapes at every exponent gap of the alphabet (quotients of up to 12k digits for the huge gaps), signs, six modes, plus the special-operand table; quotient = trunc(x/y) (rounded only if it does not fit), remainder exact with the sign of x.",
         "Sign of a zero quotient of finite operands is not pinned by the property and not checked; model bound to the repository's QuoRem vectors."),
 "C04": ("exploration", "bounded-exhaustive pair/triple enumeration against the exact order",
         "All shape pairs at all gaps and signs, arm-targeted near-equal pairs for every gap 0..35 (equal values in different cohorts, values differing in one dropped digit), special table, predicates on every cohort member and zero exponent, explicit triples; every answer of Cmp/CmpAbs/Equal/Compare/Min/Max/IsZero/Sign compared with the exact order.",
         "Exhaustive over shapes and gaps, not over all digit values."),
 "C05": ("model_checking", "explicit-state conformance of the parser with a reference automaton: all strings up to length N over a 15-symbol alphabet, plus bounded-exhaustive structured literals against an exact literal evaluator",
         "Every string up to the length bound through Parse/UnmarshalText/MustParse judged against the reference grammar and exact evaluator; structured literals of every length 1..45 and around 32768/65536 digits, every dot position, leading-zero runs, exponent fields across every threshold, lead-digit prefixes at accumulator limits, 6 DefaultRoundingMode values; every byte of short well-formed literals replaced by each of the 256 byte values and single-bit flips of long ones; literals of up to 400000 digits whose exponent field is compensated by the position of the point; Scan on valid numerals.",
         "Strings the documentation does not pin (signed NaN, '_' in exponent digits) are not judged; UnmarshalText may leave the receiver alone on a range error."),
 "C06": ("exploration", "bounded-exhaustive enumeration (coefficient cohorts x all 12288 exponents) against the reference shortest layout, plus parse round trip",
         "Every shape with trailing-zero cohorts at every exponent and sign through String/MarshalText/%v/Format/Append(-1), digit-pair sweep of the extractor, zeros at every exponent, specials, every sequence of up to four values formatted into one reused buffer, and the values reached by two-step operation sequences on the real implementation; text must equal the reference layout and parse back to the same value and sign.",
         "Reference layout = strconv shortest layout on exact digits (bound to the toolchain in C07)."),
 "C07": ("model_checking", "conformance with a reference formatter model over the product value x verb x precision x width x flag subsets; model validated against the installed fmt/strconv on float64-exact values every run",
         "Reference formatter (exact digits, half-even rounding, strconv layout, fmt flags) compared with fmt.Sprintf, Decimal.Append (nil and caller-supplied buffers: empty with capacity 1, a prefix in a tight and in a roomy buffer), Format and Append on every value/spec combination and flag sequences; the model itself must reproduce the toolchain's output for every float64-exact value and spec first.",
         "Configuration = installed Go toolchain; values are a shape alphabet."),
 "C13": ("model_checking", "conformance with the RFC 8259 number grammar: all byte strings up to length N over a JSON-ish alphabet, structured numbers, and MarshalJSON over cohorts x exponents with exact value check",
         "MarshalJSON output validated by three recognisers, exact value/sign, no superfluous digits, round trips directly and through encoding/json containers; UnmarshalJSON judged on every string up to the bound and on structured numbers against Parse; null and non-number documents.",
         "Plain numerals that are not JSON numbers (+1, .5, 01) are not judged."),
 "C15": ("exploration", "exhaustive operand-class table (class alphabet squared x every operation/mode) against float64 shadows; predicates over all 2^17 top-bit patterns",
         "Every pair of operand classes for every binary operation and mode, every class for every unary operation; class and sign from Go's float64 operation, bit-exact NaN propagation, payload text of invalid operations, predicate consistency on every top-bit pattern.",
         "Finite representatives are moderate so float64 and decimal agree on result classes; Min/Max decided by C04."),
 "C16": ("exploration", "bounded-exhaustive argument alphabet x 8 functions against a two-precision math/big.Float oracle (enclosure verdicts)",
         "Arguments over the whole exponent range, neighbours of 1, every two-digit leading pair, all exact cases, overflow/underflow thresholds to a few ulps, the int16 exponent-wrap region, binary-limit digit prefixes at every decimal magnitude, word-structured and digit-reversed coefficients; accepted only if within one ulp over the whole enclosure, rejected only if beyond it over the whole enclosure; exact cases must be exact.",
         "Numerical oracle (320/512-bit evaluation, 2^-280 guard) bound to the repository's simple.txt vectors; exactness and range-end conventions judged under the default mode, the one-ulp bound also under one other DefaultRoundingMode per argument (with a 1e-20 ulp slack there). Known findings: Expm1 for small negative arguments and Expm1(-0), Log1p for |x| < 1e-3276 (the repository's own edge vectors pin those results, so they cannot be repaired with the suite unedited)."),
 "C17": ("exploration", "bounded-exhaustive enumeration decided exactly in big integers ((r -/+ (1/2+1e-20)u)^k against |d|)",
         "Shapes x every exponent (subset) and exponent windows (all), perfect squares/cubes and their neighbours, all leading-digit prefixes, both functions and signs; the property's own integer criterion is evaluated exactly; perfect powers must give exact roots.",
         "No numerical approximation is involved."),
 "C18": ("exploration", "bounded-exhaustive ladder x base/exponent product against exact shortcut rules and a two-precision big.Float oracle with the property's tolerance formula",
         "Every shortcut case (y in 0, +-1, +-0.5 cohorts, integers in every encoding k*10^e, powers of ten for every k, negative bases) must be exact; word-structured bases/exponents and powers of two and five as bases; general pairs incl. bases near 1, every leading pair, exponents landing at the thresholds to a few ulps, bases at both ends of every logarithm-table slot against fixed fractions of the threshold exponent (amplified logarithm error), all six modes; Pow == PowWithMode under every default mode.",
         "Beyond the range both Inf/zero and the mode-rounded extreme are accepted; oracle bound to the repository's Pow vectors (simple.txt)."),
 "C20": ("model_checking", "stateless exploration of all thread interleavings (preemption-bounded DFS under a hand-written cooperative scheduler on an AST-instrumented overlay build of the current sources) + exhaustive totality/purity enumeration + supplementary free-running -race pass",
         "Totality and purity over every exported entry point with extreme arguments, fault-injecting fmt.State/ScanState stubs and a generated snapshot of all package-level variables; ownership of returned memory (every slice/big-value-returning entry point on ordered value pairs: results held, overwritten over their whole capacity, calls repeated); all interleavings of 2-3 threads x 2 operations for every pair of a 19-entry operation menu on shared operands up to the preemption bound, results compared with sequential execution; recorded schedules are replayed for determinism.",
         "Scheduling points are statement-level accesses to package variables (plus function entries/loops after a reference escapes); finer memory-model effects are only sampled by the -race pass; capped scenarios are reported with exhaustive:false."),
 "C19": ("model_checking", "cohort-closure search: every encoding of each base value x every observer; executions that must be indistinguishable are compared with each other; Canonical against the direct definition over shapes x all exponents",
         "All cohort members (generated by x10//10 transitions) of each base value through ~150 unary observers and all binary operations (member x member product on a reduced base, one side at a time otherwise); Canonical bit-exact against the normal-form definition over every exponent and all special prefixes.",
         "Differential oracle: no numeric reference involved; sign of Canonical(NaN) not pinned."),
 "C08": ("exploration", "bounded-exhaustive enumeration (shape x exponent x every cutting dp x mode) against exact quantisation",
         "Every shape at every exponent position with every dp that cuts through or borders its digits, extreme dp values, six modes, both signs; Round/Ceil/Floor and the package functions; idempotence re-applied on every result.",
         "When the rounded multiple is not a member the oracle expects Inf; model bound to the repository's Round/Ceil/Floor vectors."),
 "C09": ("exploration", "bounded-exhaustive enumeration (all binade exponents x mantissa shapes; shapes x all decimal exponents in the float range) decided exactly on rationals",
         "FromFloat64/32 for every float exponent and mantissa shape against exact m*2^e rounded nearest-even, round trips (thorough: all 2^32 float32 patterns), Float64/Float32 adjacency decided on exact rationals for every decimal exponent -400..330, halfway cases, Float at ten precisions, FromFloat tolerance.",
         "Default rounding mode only; FromFloat tolerance relaxed below 1e-6143 where the format cannot carry 33 digits."),
 "C10": ("exploration", "bounded-exhaustive enumeration against big.Int/big.Rat",
         "Machine integer bounds and powers, FromInt for K*10^k (k up to 6200) with ties and neighbours, integer conversions at every type bound with fractions in every cohort, Rat round trip over shapes x exponents, FromRat over shape pairs (correct rounding) and big operands (tolerance).",
         "Default rounding mode only; FromRat tolerance relaxed below 1e-6143."),
 "C11": ("exploration", "bounded-exhaustive enumeration (int64 shapes x every exponent -7000..7000; shapes x boundary-landing shifts) against exact scaling",
         "New over int64 shapes and every exponent plus int extremes; Ldexp over shapes, positions and every shift landing near the range ends (every shift in -12400..12400 for a subset); Frexp invariants and Ldexp(Frexp(d)) over shapes x exponents; specials unchanged.",
         "Default rounding mode only (the property names nearest-even)."),
 "C12": ("exploration", "exhaustive enumeration of all 2^17 top-bit values x low-bit shapes against an independent IEEE 754-2008 BID codec",
         "Every sign/combination/exponent/special prefix with every low-bit shape: Unmarshal/Marshal identity, the library's reading (Decompose, predicates) equals the independent decoder's, composed values marshal to the independent encoder's bytes, all slice lengths 0..64.",
         "Low 111 bits are covered by shapes, not exhaustively; the independent codec is written from the standard."),
 "C14": ("exploration", "bounded-exhaustive enumeration against exact representability on big integers",
         "Decompose/Compose round trip over shapes x exponents x buffers; Compose of K*10^z (z to 120, all three size paths) with leading zeros at exponent windows and int32 extremes, all 256 forms; success iff exactly representable.",
         "Coefficients are shape-based."),
}
def main():
    props = [json.loads(l) for l in open("properties.jsonl")]
    checks = []
    for p in props:
        i = p["id"]
        if i not in CHECKS: continue
        lvl, tech, text, note = CHECKS[i]
        checks.append({"property_id": i, "quick_cmd": "./check.sh %s quick" % i, "thorough_cmd": "./check.sh %s thorough" % i,
            "evidence_file": "/verif/evidence/%s.json" % i, "replay_cmd_template": "./check.sh replay {path}", "engine": "verifmc",
            "level_claimed": {"category": lvl, "text": text, "design_ref": "DESIGN.md section 4 (%s)" % i},
            "level_note": note, "technique": tech})
    na = [{"property_id": i, "reason": "check not built yet (work in progress; see DESIGN.md section 10)"} for i in ALL if i not in CHECKS]
    m = {"version": 1, "setup_cmd": "./setup.sh",
      "hooks": {"guard": "verif", "enable": "no source hook is committed to /repo: checks use only the exported API (and, for C20, a go build -overlay generated from the current tree under /verif/.work)",
                "baseline_off_cmd": "cd /repo && GOFLAGS=-mod=mod GOPROXY=off GOSUMDB=off GOTOOLCHAIN=local go test -vet=off -count=1 ./...",
                "source_commits": [], "add_only": True},
      "engines": [{"name": "verifmc", "path": "/verif/mc", "serves_properties": sorted(CHECKS), "kind_free_text": "hand-written Go bounded-exhaustive explorer: product enumeration, cohort-closure search, reference-automaton conformance, and a controlled scheduler over an instrumented overlay build, against a math/big reference model"}],
      "checks": checks, "not_applicable": na,
      "notes": "Known findings and fixed defects: /verif/known_findings.json. fix: commits in /repo are listed there with their hashes."}
    json.dump(m, open("MANIFEST.json", "w"), indent=1)
main()
