#!/usr/bin/env python3
"""Regenerates MANIFEST.json from the table below (dev-time helper; not used by checks)."""
import json, subprocess
ALL = ["C%02d" % i for i in range(1, 21)]
# id -> (level, technique, text, note)
CHECKS = {
 "C01": ("exploration", "bounded-exhaustive enumeration (shape x gap x sign x mode product) against an exact big-integer reference model",
         "Every pair from the coefficient-shape alphabet at every exponent gap of the gap alphabet, all sign combinations, Add and Sub, all six modes, plus decision-table drive of guard/sticky cells, cohort cancellation, range ends and DefaultRoundingMode sweep; each result compared with the exactly rounded sum.",
         "Exhaustive over shapes, not over all 2^128 digit values; trusts math/big and the independent BID decoder; model bound to the repository's Add/Sub vectors on every run."),
}
def main():
    props = [json.loads(l) for l in open("properties.jsonl")]
    checks = []
    for p in props:
        i = p["id"]
        if i not in CHECKS: continue
        lvl, tech, text, note = CHECKS[i]
        checks.append({"property_id": i, "quick_cmd": "./check.sh %s quick" % i, "thorough_cmd": "./check.sh %s thorough" % i,
            "evidence_file": "/verif/evidence/%s.json" % i, "replay_cmd_template": "./check.sh replay {path}", "engine": "verifmc",
            "level_claimed": {"category": lvl, "text": text, "design_ref": "DESIGN.md section 4 (%s)" % i},
            "level_note": note, "technique": tech})
    na = [{"property_id": i, "reason": "check not built yet (work in progress; see DESIGN.md section 10)"} for i in ALL if i not in CHECKS]
    m = {"version": 1, "setup_cmd": "./setup.sh",
      "hooks": {"guard": "verif", "enable": "no source hook is committed to /repo: checks use only the exported API (and, for C20, a go build -overlay generated from the current tree under /verif/.work)",
                "baseline_off_cmd": "cd /repo && GOFLAGS=-mod=mod GOPROXY=off GOSUMDB=off GOTOOLCHAIN=local go test -vet=off -count=1 ./...",
                "source_commits": [], "add_only": True},
      "engines": [{"name": "verifmc", "path": "/verif/mc", "serves_properties": sorted(CHECKS), "kind_free_text": "hand-written Go bounded-exhaustive explorer: product enumeration / explicit-state BFS over operation sequences / controlled scheduler, against a math/big reference model"}],
      "checks": checks, "not_applicable": na,
      "notes": "Known findings and fixed defects: /verif/known_findings.json. fix: commits in /repo are listed there with their hashes."}
    json.dump(m, open("MANIFEST.json", "w"), indent=1)
main()
