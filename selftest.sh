#!/bin/bash
# dev-time regression: every seeded change under seeded/ must still be detected by its property's quick check.
# Each runs against its own scratch worktree (VERIF_REPO), so /repo is never touched; up to $J at a time.
cd "$(dirname "$0")"; J=${J:-3}
run1() {
  d=$1; p=$(jq -r .property $d/meta.json); wt=/tmp/selftest.$(basename $d)
  git -C /repo worktree add -q --detach $wt HEAD 2>/dev/null || { echo "RESULT $d: WORKTREE-FAILED"; return; }
  if ! git -C $wt apply $PWD/$d/patch.diff; then echo "RESULT $(basename $d): PATCH-DOES-NOT-APPLY"; else
    out=$(VERIF_REPO=$wt timeout 1800 ./check.sh $p quick 2>&1); code=$?
    if [ $code -eq 1 ] && echo "$out" | grep -aq "^VIOLATION property=$p"; then echo "RESULT $(basename $d): DETECTED"; else echo "RESULT $(basename $d): MISSED (exit $code)"; fi
  fi
  git -C /repo worktree remove --force $wt; rm -rf .work/alt-$(echo $wt | md5sum | cut -c1-10)
}
export -f run1
ls -d seeded/* | xargs -P $J -I{} bash -c 'run1 {}'
git -C /repo worktree prune
