#!/bin/bash
# usage: ./seedtest.sh <property> <mutdir> [tier]   (dev-time helper; never touches /repo)
# 1. in a scratch worktree: patch applies, (optionally) suite passes, demo fails with / passes without the patch;
# 2. runs the property's check against the patched scratch worktree (VERIF_REPO); prints DETECTED / MISSED.
P=$1; M=$(readlink -f $2); TIER=${3:-quick}
cd "$(dirname "$0")"
export GOFLAGS=-mod=mod GOPROXY=off GOSUMDB=off GOTOOLCHAIN=local
WT=/tmp/seedwt.$$
git -C /repo worktree add -q --detach $WT HEAD || exit 2
trap 'git -C /repo worktree remove --force $WT; rm -rf .work/alt-$(echo $WT | md5sum | cut -c1-10)' EXIT
if ! git -C $WT apply $M/patch.diff; then echo "RESULT $P $M: PATCH-DOES-NOT-APPLY"; exit 3; fi
if [ -z "$SKIP_SUITE" ]; then
  fails=$(cd $WT && go test -vet=off -count=1 . 2>&1 | grep -E "^--- FAIL" | head -3)
  if [ -n "$fails" ]; then echo "RESULT $P $M: SUITE-FAILS $fails"; exit 3; fi
fi
cp $M/demo_test.go $WT/zz_demo_test.go
tests="$(grep -oE 'func (Test[A-Za-z0-9_]+)' $WT/zz_demo_test.go | awk '{print $2}' | paste -sd'|')"
if (cd $WT && timeout 600 go test -vet=off -count=1 -run "$tests" . >/tmp/seed.$$.log 2>&1); then echo "RESULT $P $M: DEMO-PASSES-WITH-PATCH"; tail -5 /tmp/seed.$$.log; exit 3; fi
git -C $WT apply -R $M/patch.diff
if ! (cd $WT && timeout 600 go test -vet=off -count=1 -run "$tests" . >/tmp/seed.$$.log 2>&1); then echo "RESULT $P $M: DEMO-FAILS-WITHOUT-PATCH"; tail -5 /tmp/seed.$$.log; exit 3; fi
rm -f $WT/zz_demo_test.go /tmp/seed.$$.log
git -C $WT apply $M/patch.diff
out=$(VERIF_REPO=$WT timeout 3000 ./check.sh $P $TIER 2>&1); code=$?
echo "$out" | grep -aE "^VIOLATION|SELF-CHECK|BUILD-FAILED" | head -3
echo "$out" | tail -1
if [ $code -eq 1 ] && echo "$out" | grep -aq "^VIOLATION property=$P"; then echo "RESULT $P $M: DETECTED"; else echo "RESULT $P $M: MISSED (exit $code)"; fi
