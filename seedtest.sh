#!/bin/bash
# usage: ./seedtest.sh <property> <mutdir> [tier]   (dev-time helper)
# 1. confirms in a scratch worktree that the patch compiles, passes the suite (except TestDecimalFormat) and that the demo fails with / passes without it;
# 2. applies the patch to /repo, runs the property's check, reverts; prints DETECTED / MISSED.
P=$1; M=$2; TIER=${3:-quick}
export GOFLAGS=-mod=mod GOPROXY=off GOSUMDB=off GOTOOLCHAIN=local
WT=/tmp/seedwt.$$
git -C /repo worktree add -q --detach $WT HEAD || exit 2
trap 'git -C /repo worktree remove --force $WT; git -C /repo checkout -q -- . ' EXIT
cd $WT
if ! git apply $M/patch.diff; then echo "RESULT $P $M: PATCH-DOES-NOT-APPLY"; exit 3; fi
if [ -z "$SKIP_SUITE" ]; then
  fails=$(go test -vet=off -count=1 . 2>&1 | grep -E "^--- FAIL" | grep -v TestDecimalFormat | head -3)
  if [ -n "$fails" ]; then echo "RESULT $P $M: SUITE-FAILS $fails"; exit 3; fi
fi
cp $M/demo_test.go ./zz_demo_test.go
if go test -vet=off -count=1 -run "$(grep -oE 'func (Test[A-Za-z0-9_]+)' zz_demo_test.go | awk '{print $2}' | paste -sd'|')" . >/tmp/seed.$$.log 2>&1; then echo "RESULT $P $M: DEMO-PASSES-WITH-PATCH"; tail -5 /tmp/seed.$$.log; exit 3; fi
git checkout -q -- . 
if ! go test -vet=off -count=1 -run "$(grep -oE 'func (Test[A-Za-z0-9_]+)' zz_demo_test.go | awk '{print $2}' | paste -sd'|')" . >/tmp/seed.$$.log 2>&1; then echo "RESULT $P $M: DEMO-FAILS-WITHOUT-PATCH"; tail -5 /tmp/seed.$$.log; exit 3; fi
rm -f zz_demo_test.go /tmp/seed.$$.log
cd /verif
git -C /repo apply $M/patch.diff || exit 3
out=$(./check.sh $P $TIER 2>&1); code=$?
git -C /repo checkout -q -- .
echo "$out" | grep -E "^VIOLATION|SELF-CHECK|BUILD-FAILED" | head -3
echo "$out" | tail -1
if [ $code -eq 1 ] && echo "$out" | grep -q "^VIOLATION property=$P"; then echo "RESULT $P $M: DETECTED"; else echo "RESULT $P $M: MISSED (exit $code)"; fi
