#!/bin/bash
# dev helper: run every claimed check (quick by default), validate evidence + manifest
cd "$(dirname "$0")"; T=${1:-quick}
for p in $(jq -r '.checks[].property_id' MANIFEST.json); do ./check.sh $p $T 2>&1 | grep -E "^(VIOLATION|KNOWN-FINDING|SELF-CHECK|BUILD-FAILED)|exit=" ; done
python3-vt - <<'PY'
import json,jsonschema,glob
jsonschema.validate(json.load(open('MANIFEST.json')), json.load(open('/root/.vp/MANIFEST.schema.json')))
for f in sorted(glob.glob('evidence/*.json')):
    try: jsonschema.validate(json.load(open(f)), json.load(open('/root/.vp/EVIDENCE.schema.json')))
    except Exception as e: print('INVALID',f,str(e)[:200])
print('validated')
PY
