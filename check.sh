#!/bin/bash
# usage: ./check.sh <property|replay> <quick|thorough|file>
# Rebuilds the checker against /repo's current working tree, then runs it.
# Dev-time only: VERIF_REPO=<dir> builds and runs against a scratch worktree instead of /repo
# (separate binary, module file, work directory and evidence/replay directories, so several can run side by side).
cd "$(dirname "$0")" || exit 2
export GOFLAGS=-mod=mod GOPROXY=off GOSUMDB=off GOTOOLCHAIN=local
export GOCACHE="${GOCACHE:-$PWD/.work/gocache}"
mkdir -p .work evidence replays
BIN="$PWD/.work/verifmc"
export VERIF_ROOT="$PWD"
if [ -n "$VERIF_REPO" ] && [ "$VERIF_REPO" != "/repo" ]; then
  tag=$(echo "$VERIF_REPO" | md5sum | cut -c1-10)
  alt="$PWD/.work/alt-$tag"
  mkdir -p "$alt/evidence" "$alt/replays" "$alt/.work"
  sed "s|=> /repo|=> $VERIF_REPO|" mc/go.mod > "$alt/go.mod"; : > "$alt/go.sum"
  [ -f mc/go.sum ] && cp mc/go.sum "$alt/go.sum"
  export VERIF_MODFILE="$alt/go.mod" GOFLAGS="-mod=mod -modfile=$alt/go.mod"
  BIN="$alt/verifmc"
  # machinery files are shared; outputs go to the scratch root
  for f in known_findings.json known mc; do ln -sfn "$PWD/$f" "$alt/$f"; done
  export VERIF_ROOT="$alt"
fi
( cd mc && go build -o "$BIN" . ) || { echo "BUILD-FAILED: checker does not build against the repository"; exit 2; }
exec "$BIN" "$@"
