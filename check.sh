#!/bin/bash
# usage: ./check.sh <property|replay> <quick|thorough|file>
# Rebuilds the checker against /repo's current working tree, then runs it.
cd "$(dirname "$0")" || exit 2
export VERIF_ROOT="$PWD"
export GOFLAGS=-mod=mod GOPROXY=off GOSUMDB=off GOTOOLCHAIN=local
export GOCACHE="${GOCACHE:-$PWD/.work/gocache}"
mkdir -p .work evidence replays
( cd mc && go build -o ../.work/verifmc . ) || { echo "BUILD-FAILED: checker does not build against /repo"; exit 2; }
exec ./.work/verifmc "$@"
