#!/bin/bash
# Dev-time: for the sweep's changes that triage found observable but the mapped checks did not report,
# run every quick check (current machinery) until one reports it. -> $MS/stage3.tsv
cd "$(dirname "$0")"; MS=${MS:-/tmp/mutsweep}
for id in "$@"; do
  w=$MS/w-$id; [ -d $w ] || { echo -e "$id\tNODIR" >> $MS/stage3.tsv; continue; }
  res=MISSED-ALL
  for p in C16 C18 C01 C02 C09 C10 C15 C05 C13 C17 C12 C14 C11 C04 C08 C06 C07 C03 C19 C20; do
    out=$(VERIF_REPO=$w VERIF_MAXVIOL=1 VERIF_STOPAT=1 timeout 900 ./check.sh $p quick 2>&1); c=$?
    if [ $c -eq 1 ] && echo "$out" | grep -aq "^VIOLATION property=$p"; then res="DETECTED $p $(echo "$out" | grep -a -A1 '^VIOLATION' | sed -n 2p | cut -c1-120)"; break; fi
    if [ $c -ne 0 ]; then res="EXIT$c $p"; break; fi
  done
  echo -e "$id\t$res" >> $MS/stage3.tsv
  rm -rf .work/alt-$(echo $w | md5sum | cut -c1-10)
done
