#!/usr/bin/env python3
"""Dev-time: summarise the mutation sweep (mutsweep/stage1.tsv, stage2.tsv, stage3.tsv, triage/*.json, final.json)
into mutsweep/SUMMARY.md and the block between <!-- MUTSWEEP-BEGIN/END --> in DESIGN.md."""
import json, glob, collections, os, re, sys
os.chdir(os.path.dirname(os.path.abspath(__file__)))
D = sys.argv[1] if len(sys.argv) > 1 else "mutsweep"
TAG = sys.argv[2] if len(sys.argv) > 2 else "MUTSWEEP"
s1 = [l.rstrip('\n').split('\t') for l in open(D + '/stage1.tsv')]
s2 = {}
for l in open(D + '/stage2.tsv'):
    r = l.rstrip('\n').split('\t'); s2[r[0]] = r
s3 = {}
if os.path.exists(D + '/stage3.tsv'):
    for l in open(D + '/stage3.tsv'):
        r = l.rstrip('\n').split('\t'); s3[r[0]] = r[1]
tri = {}
for f in sorted(glob.glob(D + '/triage/*.json')):
    for e in json.load(open(f)):
        tri[e['id']] = e
final = json.load(open(D + '/final.json')) if os.path.exists(D + '/final.json') else {}
files = sorted({r[2].split(':')[0] for r in s1})
T = collections.defaultdict(collections.Counter)
for r in s1:
    f = r[2].split(':')[0]
    T[f]['generated'] += 1
    T[f][r[1]] += 1
    if r[1] != 'survives':
        continue
    m = s2.get(r[0])
    if not m:
        T[f]['not-run'] += 1; continue
    if m[1].startswith('DETECTED'):
        T[f]['detected'] += 1; continue
    v = (tri.get(r[0]) or {}).get('verdict', 'untriaged')
    if r[0] in final:
        v = final[r[0]]['class']
    elif v in ('observable', 'violates'):
        v = 'detected-other' if s3.get(r[0], '').startswith('DETECTED') else 'observable-unclassified'
    T[f][v] += 1
cols = ['generated', 'nobuild', 'suite-kills', 'suite-timeout', 'survives', 'detected', 'detected-other', 'gap-closed', 'equivalent', 'tolerated', 'outside-property', 'not-detected', 'untriaged', 'observable-unclassified', 'not-run']
cols = [c for c in cols if any(T[f][c] for f in files)]
hdr = {'generated': 'changes', 'nobuild': 'no build', 'suite-kills': 'suite fails', 'suite-timeout': 'suite hangs', 'survives': 'suite passes',
       'detected': 'reported (mapped checks)', 'detected-other': 'reported (another check)', 'gap-closed': 'reported after strengthening',
       'equivalent': 'equivalent', 'tolerated': 'within the property\'s tolerance', 'outside-property': 'observable, outside every property', 'not-detected': 'not reported'}
out = ['| file | ' + ' | '.join(hdr.get(c, c) for c in cols) + ' |', '|---|' + '---|' * len(cols)]
tot = collections.Counter()
for f in files:
    out.append('| %s | ' % f + ' | '.join(str(T[f][c]) for c in cols) + ' |')
    for c in cols: tot[c] += T[f][c]
out.append('| **total** | ' + ' | '.join('**%d**' % tot[c] for c in cols) + ' |')
table = '\n'.join(out)
detail = []
for mid in sorted(final):
    e = final[mid]; r = s2.get(mid, ['', '', '?', '?', '?'])
    detail.append('| %s | %s `%s`: %s | %s | %s |' % (mid, r[2], r[3], r[4].replace('|', '\\|'), e['class'], e['note']))
dt = '| id | change | outcome | note |\n|---|---|---|---|\n' + '\n'.join(detail)
open(D + '/SUMMARY.md', 'w').write('# Mutation sweep summary (generated)\n\n' + table + '\n\n## Changes that triage found observable\n\n' + dt + '\n')
d = open('DESIGN.md').read()
if '<!-- ' + TAG + '-BEGIN -->' in d:
    a = d.index('<!-- ' + TAG + '-BEGIN -->') + len('<!-- ' + TAG + '-BEGIN -->'); b = d.index('<!-- ' + TAG + '-END -->')
    d = d[:a] + '\n' + table + '\n\n' + dt + '\n' + d[b:]
    open('DESIGN.md', 'w').write(d)
print(dict(tot))
