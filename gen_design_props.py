#!/usr/bin/env python3
"""dev-time: regenerate DESIGN.md section 4 (between PROPS markers) from properties.jsonl, MANIFEST.json and evidence/*.json"""
import json
props={json.loads(l)['id']:json.loads(l) for l in open('/verif/properties.jsonl')}
man={c['property_id']:c for c in json.load(open('/verif/MANIFEST.json'))['checks']}
out=['<!-- PROPS-BEGIN -->',
 'This section is generated (`gen_design_props.py`) from what the checks themselves report in their evidence files, so it',
 'cannot drift from the code: for every property the claimed level, the enumeration and decision rule (the check\'s own',
 '`rule` string), the bounds of the quick tier as measured on the last run, and the assumptions. The thorough tier uses the',
 'same procedures with the larger alphabets named in the rule (all lengths 1..35, every gap in [-80,80], 3-digit lead prefixes,',
 'longer strings, every exponent, more schedules).','']
for i in sorted(props):
    p=props[i]; c=man.get(i)
    try: ev=json.load(open('/verif/evidence/%s.json'%i))
    except Exception: ev=None
    out.append('### %s %s'%(i,p['title'])); out.append('')
    if not c: out.append('not claimed'); continue
    out.append('*Level:* %s — %s'%(c['level_claimed']['category'],c.get('technique','')))
    out.append('')
    if ev:
        cov=ev['coverage']
        out.append('*Enumeration and oracle:* '+cov.get('rule',''))
        out.append('')
        b=cov.get('bounds',{})
        out.append('*Quick tier, last run:* %d evaluations, %d distinct cells (%d non-trivial), %.0f s; bounds: %s.'%(cov.get('evaluations',0),cov.get('distinct_cells',0),cov.get('distinct_nontrivial',0),ev.get('wall_s',0), ', '.join('%s=%s'%(k,json.dumps(v) if not isinstance(v,str) else v) for k,v in sorted(b.items()))))
        if 'states' in cov: out[-1]+=' states=%d, transitions=%d.'%(cov['states'],cov['transitions'])
        if cov.get('traces_validated_against_impl'): out[-1]+=' Oracle-binding traces: %d.'%cov['traces_validated_against_impl']
        out.append('')
        if ev.get('assumptions'): out.append('*Assumptions:* '+'; '.join(ev['assumptions'])+'.'); out.append('')
        if ev.get('known_findings_fired'): out.append('*Known findings fired:* '+', '.join(ev['known_findings_fired'])+' (see §8).'); out.append('')
    out.append('*Trusted base / note:* '+c['level_note']); out.append('')
out.append('<!-- PROPS-END -->')
s=open('/verif/DESIGN.md').read()
a=s.index('<!-- PROPS-BEGIN -->'); b=s.index('<!-- PROPS-END -->')+len('<!-- PROPS-END -->')
open('/verif/DESIGN.md','w').write(s[:a]+'\n'.join(out)+s[b:])
print('ok')
