#!/bin/bash
# Builds the checker from files on disk only (offline).
cd "$(dirname "$0")" || exit 2
export GOFLAGS=-mod=mod GOPROXY=off GOSUMDB=off GOTOOLCHAIN=local
export GOCACHE="${GOCACHE:-$PWD/.work/gocache}"
mkdir -p .work evidence replays
( cd mc && go build -o ../.work/verifmc . ) || exit 1
echo "setup ok"
# warm the build cache for the race pass and the overlay build used by C20 (first -race build is slow)
( cd mc && go build -race -o ../.work/racerun ./cmd/racerun ) || exit 1
