// Package props holds one decision procedure per property.
package props

import (
	"fmt"
	"math/big"
	"math/bits"
	"os"
	"sort"
	"strconv"

	dec "github.com/woodsbury/decimal128"

	"verifmc/eng"
	"verifmc/ref"
)

// RepoDir is the tree the checker was built against (/repo unless VERIF_REPO points a dev-time run at a scratch worktree).
func RepoDir() string {
	if d := os.Getenv("VERIF_REPO"); d != "" {
		return d
	}
	return "/repo"
}

var LibModes = [6]dec.RoundingMode{dec.ToNearestEven, dec.ToNearestAway, dec.ToZero, dec.AwayFromZero, dec.ToNegativeInf, dec.ToPositiveInf}

var Modes = []ref.Mode{ref.NearestEven, ref.NearestAway, ref.ToZero, ref.AwayFromZero, ref.ToNegInf, ref.ToPosInf}

func MName(m int) string { return ref.ModeNames[m] }

func ModeIndex(name string) int {
	for i, n := range ref.ModeNames {
		if n == name {
			return i
		}
	}
	return -1
}

// D builds a Decimal from a bit pattern through the exported binary codec (C12 shows it is the
// identity on bits; CodecSanity re-checks that before any other property relies on it).
func D(b ref.Bits) dec.Decimal {
	var d dec.Decimal
	if err := d.UnmarshalBinary(b[:]); err != nil {
		panic("harness: UnmarshalBinary failed: " + err.Error())
	}
	return d
}

func B(d dec.Decimal) ref.Bits {
	bs, err := d.MarshalBinary()
	var b ref.Bits
	if err != nil || len(bs) != 16 {
		panic("harness: MarshalBinary failed")
	}
	copy(b[:], bs)
	return b
}

func V(d dec.Decimal) ref.Val { return ref.Decode(B(d)) }

// Same reports whether the bit pattern denotes the same class, sign and value as want.
// Fast path on machine words; anything it cannot confirm is re-decided with big integers.
func Same(b ref.Bits, want ref.Val) bool {
	if fastSame(b, want) {
		return true
	}
	return ref.SameValue(ref.Decode(b), want)
}

func fastSame(b ref.Bits, want ref.Val) bool {
	hi, lo := b.Hi(), b.Lo()
	neg := hi>>63 == 1
	if hi&0x7800000000000000 == 0x7800000000000000 {
		return false // specials: let the slow path decide
	}
	if want.Class != ref.Fin || neg != want.Neg {
		return false
	}
	var ch uint64
	var q int
	if hi&0x6000000000000000 == 0x6000000000000000 {
		ch = hi&0x7fffffffffff | 0x2000000000000
		q = int(hi>>47&0x3fff) - ref.Bias
	} else {
		ch = hi & 0x1ffffffffffff
		q = int(hi>>49&0x3fff) - ref.Bias
	}
	cl := lo
	ws := want.C.Bits()
	if len(ws) > 2 {
		return false
	}
	var wl, wh uint64
	if len(ws) > 0 {
		wl = uint64(ws[0])
	}
	if len(ws) > 1 {
		wh = uint64(ws[1])
	}
	if ch|cl == 0 || wh|wl == 0 {
		return ch|cl == 0 && wh|wl == 0
	}
	wq := want.Q
	for q > wq {
		h1, l1 := bits.Mul64(cl, 10)
		h2, l2 := bits.Mul64(ch, 10)
		if h2 != 0 {
			return false
		}
		s, c := bits.Add64(l2, h1, 0)
		if c != 0 {
			return false
		}
		ch, cl = s, l1
		q--
		if q-wq > 40 {
			return false
		}
	}
	for wq > q {
		h1, l1 := bits.Mul64(wl, 10)
		h2, l2 := bits.Mul64(wh, 10)
		if h2 != 0 {
			return false
		}
		s, c := bits.Add64(l2, h1, 0)
		if c != 0 {
			return false
		}
		wh, wl = s, l1
		wq--
		if wq-q > 40 {
			return false
		}
	}
	return ch == wh && cl == wl
}

// Mk builds the Decimal c*10^q with sign; panics if not a member (alphabet bug).
func Mk(neg bool, c *big.Int, q int) dec.Decimal {
	b, ok := ref.Encode(neg, c, q)
	if !ok {
		panic(fmt.Sprintf("harness: not a member: %v e%d", c, q))
	}
	return D(b)
}

func MkBits(neg bool, c *big.Int, q int) ref.Bits {
	b, ok := ref.Encode(neg, c, q)
	if !ok {
		panic(fmt.Sprintf("harness: not a member: %v e%d", c, q))
	}
	return b
}

// CodecSanity verifies, on a few hundred patterns, that Unmarshal/Marshal are the identity on bits.
// Every property other than C12 aborts with a machinery error (not a VIOLATION) if this fails.
func CodecSanity(r *eng.Run) bool {
	n := 0
	for top := uint64(0); top < 1<<17; top += 97 {
		for _, lo := range []uint64{0, 1, 0xffffffffffffffff, 0x123456789abcdef0} {
			hi := top<<47 | (lo >> 17 & 0x7fffffffffff)
			b := ref.FromWords(hi, lo)
			var d dec.Decimal
			if err := d.UnmarshalBinary(b[:]); err != nil {
				r.SelfFail("precondition: UnmarshalBinary rejects 16 bytes (%v); see C12", err)
				return false
			}
			if B(d) != b {
				r.SelfFail("precondition: binary codec is not the identity on %s; see C12", b.Hex())
				return false
			}
			n++
		}
	}
	// and one semantic probe: 1 == 0x3040.. 0001
	one := ref.FromWords(0x3040000000000000, 1)
	if !D(one).Equal(dec.New(1, 0)) || D(one).String() != "1" {
		r.SelfFail("precondition: binary codec decodes 1 wrongly; see C12")
		return false
	}
	return true
}

func bi(s string) *big.Int {
	z, ok := new(big.Int).SetString(s, 10)
	if !ok {
		panic("bad int " + s)
	}
	return z
}

func pow2(k int) *big.Int { return new(big.Int).Lsh(big.NewInt(1), uint(k)) }

const gen1 = "12345678901234567890123456789012345678901234567890"
const gen9 = "98765432109876543210987654321098765432109876543210"

// ShapesLen returns the coefficient shapes of decimal length L (all <= Cmax).
func ShapesLen(L int) []*big.Int {
	var out []*big.Int
	add := func(z *big.Int) {
		if z.Sign() > 0 && z.Cmp(ref.Cmax) <= 0 {
			out = append(out, z)
		}
	}
	p := ref.Pow10(L - 1)
	add(new(big.Int).Set(p))
	add(new(big.Int).Sub(ref.Pow10(L), big.NewInt(1)))
	if L > 1 {
		add(new(big.Int).Add(p, big.NewInt(1)))
		h := new(big.Int).Mul(p, big.NewInt(5))
		add(h)
		add(new(big.Int).Sub(h, big.NewInt(1)))
		add(new(big.Int).Add(h, big.NewInt(1)))
		r3 := new(big.Int).Quo(new(big.Int).Sub(ref.Pow10(L), big.NewInt(1)), big.NewInt(3))
		add(r3)
		r7 := new(big.Int).Mul(new(big.Int).Quo(new(big.Int).Sub(ref.Pow10(L), big.NewInt(1)), big.NewInt(9)), big.NewInt(7))
		add(r7)
		add(bi(gen1[:L]))
		add(bi(gen9[:L]))
	} else {
		for _, d := range []int64{2, 3, 5, 7} {
			add(big.NewInt(d))
		}
	}
	return out
}

// SeamShapes: binary word seams, the form-1/form-2 seam, Cmax neighbourhood, code thresholds.
func SeamShapes() []*big.Int {
	var out []*big.Int
	add := func(z *big.Int) {
		if z.Sign() > 0 && z.Cmp(ref.Cmax) <= 0 {
			out = append(out, z)
		}
	}
	for _, k := range []int{32, 53, 63, 64, 65, 96, 112, 113} {
		p := pow2(k)
		add(new(big.Int).Sub(p, big.NewInt(1)))
		add(p)
		add(new(big.Int).Add(p, big.NewInt(1)))
	}
	ones := new(big.Int).Sub(pow2(64), big.NewInt(1))
	for _, a := range []int64{1, 2, 0x18ff, 0x27fff, 0xffffffff} {
		z := new(big.Int).Lsh(big.NewInt(a), 64)
		add(new(big.Int).Or(z, ones))
		add(z)
		add(new(big.Int).Add(z, big.NewInt(1)))
	}
	add(new(big.Int).Set(ref.Cmax))
	add(new(big.Int).Sub(ref.Cmax, big.NewInt(1)))
	c10 := new(big.Int).Quo(ref.Cmax, big.NewInt(10))
	add(c10)
	add(new(big.Int).Add(c10, big.NewInt(1)))
	add(new(big.Int).Add(ref.Pow10(34), big.NewInt(1)))
	add(new(big.Int).Sub(ref.Pow10(34), big.NewInt(1)))
	add(new(big.Int).SetUint64(0x18ffffffffffffff))
	add(new(big.Int).SetUint64(0x1900000000000000))
	add(new(big.Int).SetUint64(0x27fffffffffff))
	add(new(big.Int).SetUint64(0x2800000000000))
	z := new(big.Int).Lsh(new(big.Int).SetUint64(0x18ffffffffffffff), 64)
	add(z)
	z2 := new(big.Int).Lsh(new(big.Int).SetUint64(0x27fffffffffff), 64)
	add(new(big.Int).Or(z2, ones))
	// binary overflow limits divided by powers of ten, and values just above/below them
	// (windows that a slightly wrong guard constant opens: 2^64/10, 2^128/10, Cmax)
	for _, t := range []string{"1844", "1845", "185", "186", "19", "3402", "3403", "341", "342", "345", "35", "3322", "3323", "333", "1297", "1299", "13", "2551", "2552", "256", "26"} {
		add(bi(t))
		add(bi(t + "00000000000000000000000000000001"[len(t)-2:]))
	}
	add(bi("11000000000000000000000000000000000"))
	add(bi("12500000000000000000000000000000000"))
	add(bi("12980742146337069071326240823050230"))
	add(bi("12980000000000000000000000000000005"))
	return out
}

func dedupe(in []*big.Int) []*big.Int {
	sort.Slice(in, func(i, j int) bool { return in[i].Cmp(in[j]) < 0 })
	var out []*big.Int
	for i, z := range in {
		if i == 0 || z.Cmp(in[i-1]) != 0 {
			out = append(out, z)
		}
	}
	return out
}

// WordShapes: coefficients whose high 64-bit word sits at a decimal threshold (the multi-word helpers guard their fast
// paths with comparisons of the high word against 10, 100, 1000, 10^4, 10^8, 10^19/2^64 ...), with extreme low words.
func WordShapes() []*big.Int {
	var out []*big.Int
	var his []uint64
	p := uint64(1)
	for k := 0; k <= 14; k++ {
		his = append(his, p-1, p, p+1)
		p *= 10
	}
	his = append(his, 5, 50, 500, 0x18fe, 0x1900, 0x27ffe, 0x28000, 0x1fffffffffffe, 0x1ffffffffffff, 0x2000000000001)
	for _, h := range his {
		if h == 0 {
			continue
		}
		for _, l := range []uint64{0, 1, 1 << 63, ^uint64(0), 0x8ac7230489e80000 /* 10^19 */, 0x8ac7230489e7ffff} {
			z := new(big.Int).Lsh(new(big.Int).SetUint64(h), 64)
			z.Or(z, new(big.Int).SetUint64(l))
			if z.Cmp(ref.Cmax) <= 0 {
				out = append(out, z)
			}
		}
	}
	return dedupe(out)
}

// LimitPrefixes returns digit strings that follow the decimal digits of the binary limits 2^64, 2^128, 2^192, 2^256
// (a multi-word accumulator overflows when scaled past limit/10^j, whatever j) for the first p digits and then either
// stop (a value just below the limit) or carry +1 in the last place (just above it), for a geometric ladder of p: the
// windows that a slightly wrong guard constant opens lie at relative distance 10^-p above or below the limit.
func LimitPrefixes() []string {
	var out []string
	seen := map[string]bool{}
	for _, k := range []uint{64, 128, 192, 256} {
		d := new(big.Int).Lsh(big.NewInt(1), k).String()
		for _, p := range []int{3, 4, 5, 6, 7, 8, 10, 12, 14, 16, 18, 19, 20, 21, 24, 28, 32, 34} {
			if p > len(d) {
				continue
			}
			below := d[:p]
			above := new(big.Int).Add(bi(below), big.NewInt(1)).String()
			for _, s := range []string{below, above} {
				if !seen[s] {
					seen[s] = true
					out = append(out, s)
				}
			}
		}
	}
	return out
}

// LimitShapes are the LimitPrefixes that fit a coefficient.
func LimitShapes() []*big.Int {
	var out []*big.Int
	for _, s := range LimitPrefixes() {
		if z := bi(s); z.Cmp(ref.Cmax) <= 0 {
			out = append(out, z)
		}
	}
	return dedupe(out)
}

// CmaxPrefixes: floor(Cmax/10^j) and the next integer, j = 1..34: the short coefficients that scale (x10^j) to just
// below / just above the largest coefficient, i.e. the edge of every "does it still fit" loop.
func CmaxPrefixes() []*big.Int {
	var out []*big.Int
	for j := 1; j <= 34; j++ {
		c := new(big.Int).Quo(ref.Cmax, ref.Pow10(j))
		out = append(out, c, new(big.Int).Add(c, big.NewInt(1)))
	}
	return dedupe(out)
}

// WeylShapes returns n coefficients of mixed lengths from a fixed multiplicative (Weyl) sequence: a deterministic
// alphabet of "generic" digit values (no structure in the middle digits or words), the complement of the shape families.
func WeylShapes(n int) []*big.Int {
	var out []*big.Int
	x := new(big.Int)
	step, _ := new(big.Int).SetString("9e3779b97f4a7c15f39cc0605cedc834", 16)
	mod := new(big.Int).Lsh(big.NewInt(1), 128)
	for i := 0; i < n; i++ {
		x.Add(x, step).Mod(x, mod)
		c := new(big.Int).Set(x)
		// vary the length: 35, 34, 30, 25, 20, 19, 12 digits
		L := []int{35, 34, 34, 30, 25, 20, 19, 12}[i%8]
		c.Mod(c, ref.Pow10(L))
		if c.Cmp(ref.Cmax) > 0 {
			c.Rsh(c, 4)
		}
		if c.Sign() > 0 {
			out = append(out, c)
		}
	}
	return dedupe(out)
}

var quickLens = []int{1, 2, 3, 4, 5, 8, 9, 10, 16, 17, 18, 19, 20, 21, 33, 34, 35}

// Shapes is the coefficient alphabet K.
func Shapes(thorough bool) []*big.Int {
	var out []*big.Int
	if thorough {
		for L := 1; L <= 35; L++ {
			out = append(out, ShapesLen(L)...)
		}
		out = append(out, WordShapes()...)
		out = append(out, CmaxPrefixes()...)
		out = append(out, WeylShapes(40)...)
	} else {
		inQuick := map[int]bool{}
		for _, L := range quickLens {
			out = append(out, ShapesLen(L)...)
			inQuick[L] = true
		}
		// every other length still contributes its power of ten, all-nines and 10^(L-1)+1 (digit-count and
		// power-table boundaries exist at every length)
		for L := 1; L <= 35; L++ {
			if !inQuick[L] {
				s := ShapesLen(L)
				out = append(out, s[0], s[1])
				if len(s) > 2 {
					out = append(out, s[2])
				}
			}
		}
	}
	out = append(out, SeamShapes()...)
	return dedupe(out)
}

// SmallShapes is a reduced alphabet for expensive products.
func SmallShapes() []*big.Int {
	var out []*big.Int
	for _, L := range []int{1, 2, 9, 17, 19, 20, 34, 35} {
		s := ShapesLen(L)
		for i, z := range s {
			if i == 0 || i == 1 || i == 3 || i == len(s)-2 {
				out = append(out, z)
			}
		}
	}
	out = append(out, ref.Cmax, pow2(64), new(big.Int).Sub(pow2(64), big.NewInt(1)), pow2(113))
	return dedupe(out)
}

// LeadSweep returns every n-digit integer (all leading-digit prefixes of that length).
func LeadSweep(n int) []*big.Int {
	var out []*big.Int
	lo := ref.Pow10(n - 1).Int64()
	for v := lo; v < lo*10; v++ {
		out = append(out, big.NewInt(v))
	}
	return out
}

// Cohort returns all encodings (c', q') of the finite value c*10^q within the format.
func Cohort(c *big.Int, q int) (cs []*big.Int, qs []int) {
	if c.Sign() == 0 {
		return []*big.Int{new(big.Int)}, []int{q}
	}
	// strip trailing zeros
	c = new(big.Int).Set(c)
	for {
		var r big.Int
		t := new(big.Int)
		t.QuoRem(c, big.NewInt(10), &r)
		if r.Sign() != 0 {
			break
		}
		c = t
		q++
	}
	for {
		if c.Cmp(ref.Cmax) > 0 {
			break
		}
		if q >= ref.MinQ && q <= ref.MaxQ {
			cs = append(cs, new(big.Int).Set(c))
			qs = append(qs, q)
		}
		c = new(big.Int).Mul(c, big.NewInt(10))
		q--
		if q < ref.MinQ {
			break
		}
	}
	return
}

func itoa(i int) string { return strconv.Itoa(i) }

// Gaps is the exponent-gap alphabet.
func Gaps(thorough bool) []int {
	var g []int
	if thorough {
		for i := -80; i <= 80; i++ {
			g = append(g, i)
		}
	} else {
		for i := -45; i <= 45; i++ {
			g = append(g, i)
		}
		for _, a := range []int{55, 56, 57, 58, 59, 60, 75, 76, 77, 78, 79, 80} {
			g = append(g, a, -a)
		}
	}
	for _, a := range []int{100, 1000, 6111, 6176, 12287} {
		g = append(g, a, -a)
	}
	return g
}

func valStr(v ref.Val) string { return v.String() }
