package props

import (
	"fmt"
	"math/big"
	"strconv"
	"strings"
	"sync/atomic"
	"time"

	dec "github.com/woodsbury/decimal128"

	"verifmc/eng"
	"verifmc/ref"
	"verifmc/ref/hp"
)

type elemFn struct {
	name   string
	lib    func(dec.Decimal) dec.Decimal
	domain func(v ref.Val) bool
}

var one = big.NewInt(1)

func valIsOne(v ref.Val) bool {
	return !v.Neg && ref.SameValue(v, ref.Val{Class: ref.Fin, C: one, Q: 0})
}

func gtMinusOne(v ref.Val) bool {
	if !v.Neg {
		return true
	}
	return ref.CmpMag(v, ref.Val{Class: ref.Fin, C: one, Q: 0}) < 0
}

var elemFns = []elemFn{
	{"Exp", dec.Exp, func(v ref.Val) bool { return true }},
	{"Exp2", dec.Exp2, func(v ref.Val) bool { return true }},
	{"Exp10", dec.Exp10, func(v ref.Val) bool { return true }},
	{"Expm1", dec.Expm1, func(v ref.Val) bool { return true }},
	{"Log", dec.Log, func(v ref.Val) bool { return !v.Neg && v.C.Sign() != 0 }},
	{"Log2", dec.Log2, func(v ref.Val) bool { return !v.Neg && v.C.Sign() != 0 }},
	{"Log10", dec.Log10, func(v ref.Val) bool { return !v.Neg && v.C.Sign() != 0 }},
	{"Log1p", dec.Log1p, gtMinusOne},
}

const (
	hpP1 = 320
	hpP2 = 512
)

// magnitude guard: |x| >= 10^k ?
func magAtLeast(v ref.Val, k int) bool {
	return v.C.Sign() != 0 && v.Q+ref.NumDigits(v.C)-1 >= k
}

// hpEval returns the true result at the given precision, or a sure verdict: "overflow", "underflow", "minus-one".
func hpEval(fn string, x ref.Val, prec uint) (*big.Float, string) {
	c := hp.Get(prec)
	switch fn {
	case "Exp", "Exp2", "Exp10", "Expm1":
		if x.C.Sign() == 0 {
			if fn == "Expm1" {
				return new(big.Float), ""
			}
			return big.NewFloat(1), ""
		}
		if magAtLeast(x, 5) { // |x| >= 1e5: far beyond every threshold
			if !x.Neg {
				return nil, "overflow"
			}
			if fn == "Expm1" {
				return nil, "minus-one"
			}
			return nil, "underflow"
		}
		xf := c.FromDec(x.Neg, x.C, x.Q)
		switch fn {
		case "Exp":
			return c.Exp(xf), ""
		case "Exp2":
			return c.Exp(new(big.Float).SetPrec(prec+64).Mul(xf, c.Ln2())), ""
		case "Exp10":
			return c.Exp(new(big.Float).SetPrec(prec+64).Mul(xf, c.Ln10())), ""
		default:
			return c.Expm1(xf), ""
		}
	case "Log":
		return c.LnDec(x.C, x.Q), ""
	case "Log2":
		return new(big.Float).SetPrec(prec+64).Quo(c.LnDec(x.C, x.Q), c.Ln2()), ""
	case "Log10":
		return new(big.Float).SetPrec(prec+64).Quo(c.LnDec(x.C, x.Q), c.Ln10()), ""
	case "Log1p":
		if x.C.Sign() == 0 {
			return new(big.Float), ""
		}
		if !x.Neg && magAtLeast(x, 40) {
			// ln(1+x) = ln x + ln(1+1/x), the correction is below 1e-40 relative to a result > 92
			r := c.LnDec(x.C, x.Q)
			inv := new(big.Float).SetPrec(prec+64).Quo(big.NewFloat(1), c.FromDec(false, x.C, x.Q))
			return r.Add(r, c.Log1p(inv)), ""
		}
		return c.Log1p(c.FromDec(x.Neg, x.C, x.Q)), ""
	}
	panic("unknown fn " + fn)
}

var (
	maxFinite  = ref.Val{Class: ref.Fin, C: ref.Cmax, Q: ref.MaxQ}
	maxFiniteF = func() *big.Float {
		f := new(big.Float).SetPrec(700).SetInt(ref.Cmax)
		return f.Mul(f, new(big.Float).SetPrec(700).SetInt(ref.Pow10(ref.MaxQ)))
	}()
	minSubF = new(big.Float).SetPrec(700).Quo(big.NewFloat(1), new(big.Float).SetPrec(700).SetInt(ref.Pow10(-ref.MinQ)))
)

// ulpAt returns the spacing of the format at magnitude |t| as a big.Float (10^q, q >= MinQ).
func ulpAt(t *big.Float) (*big.Float, int) {
	if t.Sign() == 0 {
		return new(big.Float).SetPrec(700).Set(minSubF), ref.MinQ
	}
	s := new(big.Float).Abs(t).Text('e', 40) // d.ddd…e±X
	i := strings.IndexByte(s, 'e')
	e, _ := strconv.Atoi(s[i+1:])
	digs := strings.Replace(s[:i], ".", "", 1)[:35]
	q := e - 33
	if digs <= "12980742146337069071326240823050239" {
		q = e - 34
	}
	if q < ref.MinQ {
		q = ref.MinQ
	}
	u := new(big.Float).SetPrec(700)
	if q >= 0 {
		u.SetInt(ref.Pow10(q))
	} else {
		u.Quo(big.NewFloat(1), new(big.Float).SetPrec(700).SetInt(ref.Pow10(-q)))
	}
	return u, q
}

func valF(v ref.Val) *big.Float {
	f := new(big.Float).SetPrec(700).SetInt(v.C)
	if v.Q > 0 {
		f.Mul(f, new(big.Float).SetPrec(700).SetInt(ref.Pow10(v.Q)))
	} else if v.Q < 0 {
		f.Quo(f, new(big.Float).SetPrec(700).SetInt(ref.Pow10(-v.Q)))
	}
	if v.Neg {
		f.Neg(f)
	}
	return f
}

// exactWant: arguments whose true result is exactly representable (must then be returned exactly).
func exactWant(fn string, x ref.Val) (ref.Val, bool) {
	pos := func(c *big.Int, q int) (ref.Val, bool) { return ref.Fit(false, c, q) }
	intOf := func() (int, bool) {
		// x as a small integer
		t := truncInt(x)
		if !ref.SameValue(ref.Val{Class: ref.Fin, Neg: t.Sign() < 0, C: new(big.Int).Abs(t), Q: 0}, ref.Val{Class: ref.Fin, Neg: x.Neg && x.C.Sign() != 0, C: x.C, Q: x.Q}) {
			return 0, false
		}
		if !t.IsInt64() || t.Int64() > 100000 || t.Int64() < -100000 {
			return 0, false
		}
		return int(t.Int64()), true
	}
	switch fn {
	case "Exp":
		if x.C.Sign() == 0 {
			return pos(one, 0)
		}
	case "Expm1", "Log1p":
		if x.C.Sign() == 0 {
			return ref.Zero(x.Neg), true
		}
	case "Log":
		if valIsOne(x) {
			return ref.Zero(false), true
		}
	case "Exp10":
		if n, ok := intOf(); ok {
			return pos(one, n)
		}
	case "Exp2":
		if n, ok := intOf(); ok {
			if n >= 0 && n < 130 {
				return pos(new(big.Int).Lsh(one, uint(n)), 0)
			}
			if n < 0 && n > -60 {
				return pos(new(big.Int).Exp(big.NewInt(5), big.NewInt(int64(-n)), nil), n)
			}
		}
	case "Log10":
		// x = 10^n
		cs := strings.TrimRight(x.C.String(), "0")
		if cs == "1" {
			n := x.Q + len(x.C.String()) - 1
			return ref.Val{Class: ref.Fin, Neg: n < 0, C: big.NewInt(int64(absInt(n))), Q: 0}, true
		}
	case "Log2":
		// x = 2^n exactly
		r := x.Rat()
		if r.Sign() > 0 {
			num, den := r.Num(), r.Denom()
			if den.Cmp(one) == 0 && num.BitLen() > 0 && new(big.Int).And(num, new(big.Int).Sub(num, one)).Sign() == 0 {
				n := num.BitLen() - 1
				return ref.Val{Class: ref.Fin, C: big.NewInt(int64(n)), Q: 0}, true
			}
			if num.Cmp(one) == 0 && new(big.Int).And(den, new(big.Int).Sub(den, one)).Sign() == 0 {
				n := den.BitLen() - 1
				return ref.Val{Class: ref.Fin, Neg: true, C: big.NewInt(int64(n)), Q: 0}, true
			}
		}
	}
	return ref.Val{}, false
}

var elemUndecided atomic.Int64

// judgeElem returns "" if the result is acceptable, otherwise what is wrong. cell describes the case.
func judgeElem(fn string, x, got ref.Val) (verdict, want, cell string) {
	return judgeElemSlack(fn, x, got, nil)
}

func judgeElemSlack(fn string, x, got ref.Val, slack *big.Float) (verdict, want, cell string) {
	if ex, ok := exactWant(fn, x); ok {
		cell = "exact-case"
		okv := ref.SameValue(got, ex)
		if !okv && ex.IsZero() && got.IsZero() && fn == "Log" {
			okv = true
		}
		if !okv {
			return "exactly representable result not returned exactly", ex.String(), cell
		}
		return "", "", cell
	}
	t1, sp := hpEval(fn, x, hpP1)
	switch sp {
	case "overflow":
		cell = "sure-overflow"
		if got.Class != ref.Inf || got.Neg {
			return "true result far above the largest finite Decimal", "+Inf", cell
		}
		return "", "", cell
	case "underflow":
		cell = "sure-underflow"
		if !(got.Class == ref.Fin && got.C.Sign() == 0) {
			return "true result far below the smallest Decimal", "zero", cell
		}
		return "", "", cell
	case "minus-one":
		cell = "expm1-saturated"
		m1 := ref.Val{Class: ref.Fin, Neg: true, C: one, Q: 0}
		if !ref.SameValue(got, m1) {
			return "Expm1 of a hugely negative argument", "-1", cell
		}
		return "", "", cell
	}
	t2, _ := hpEval(fn, x, hpP2)
	if got.Class == ref.NaN {
		return "NaN from a finite argument in the domain", t2.Text('e', 40), "nan"
	}
	rad := new(big.Float).SetPrec(700).Sub(t1, t2)
	rad.Abs(rad)
	rad.Mul(rad, big.NewFloat(2))
	eps := new(big.Float).SetPrec(700).Abs(t2)
	eps.SetMantExp(eps, -280)
	rad.Add(rad, eps)
	at := new(big.Float).SetPrec(700).Abs(t2)
	u, q := ulpAt(t2)
	cell = "value"
	switch {
	case q == ref.MinQ:
		cell = "subnormal-result"
	case at.Cmp(maxFiniteF) > 0:
		cell = "above-max"
	}
	if got.Class == ref.Inf {
		// acceptable only if the true result is within one ulp of (or above) the largest finite value
		lim := new(big.Float).SetPrec(700).Add(at, u)
		lim.Add(lim, rad)
		if got.Neg != (t2.Sign() < 0) || lim.Cmp(maxFiniteF) <= 0 {
			return "infinite result although the true result is representable", t2.Text('e', 40), cell
		}
		return "", "", cell
	}
	if at.Cmp(maxFiniteF) > 0 {
		lo := new(big.Float).SetPrec(700).Sub(at, rad)
		if lo.Cmp(maxFiniteF) > 0 {
			// true magnitude surely exceeds the largest finite Decimal: must be Inf
			return "finite result although the true result exceeds the largest finite Decimal", "Inf", cell
		}
	}
	err := new(big.Float).SetPrec(700).Sub(valF(got), t2)
	err.Abs(err)
	hi := new(big.Float).SetPrec(700).Add(err, rad)
	if hi.Cmp(u) <= 0 {
		return "", "", cell
	}
	lo := new(big.Float).SetPrec(700).Sub(err, rad)
	if slack != nil {
		lo.Sub(lo, new(big.Float).SetPrec(700).Mul(u, slack))
		if lo.Cmp(u) <= 0 {
			return "", "", cell
		}
	}
	if lo.Cmp(u) > 0 {
		ulps := new(big.Float).Quo(err, u)
		return fmt.Sprintf("error %s ulp (spacing 1e%d)", ulps.Text('g', 6), q), t2.Text('e', 40), cell
	}
	elemUndecided.Add(1)
	return "", "", "undecided"
}

func checkElem(w *eng.W, fi int, b ref.Bits) {
	fn := elemFns[fi]
	x := ref.Decode(b)
	if x.Class != ref.Fin || !fn.domain(x) {
		return
	}
	w.Set1(fn.name, "", b)
	gb := B(fn.lib(D(b)))
	w.Eval()
	got := ref.Decode(gb)
	verdict, want, cell := judgeElem(fn.name, x, got)
	w.Cell(fn.name+"/"+cell, cell != "value")
	if verdict != "" {
		w.R.Fail(eng.Case{Op: fn.name, Args: []string{b.Hex()}, Got: got.String(), Want: want, Note: verdict + "; x=" + x.String()})
	}
}

// judgeElemAnyMode is the mode-independent part of the property: within one unit in the last place of the true
// result, whatever DefaultRoundingMode is (exactness of representable results and the Inf/zero conventions at the
// range ends are stated for the default mode and judged there only).
func judgeElemAnyMode(fn string, x, got ref.Val) (verdict, want, cell string) {
	if ex, ok := exactWant(fn, x); ok {
		cell = "exact-case"
		if got.Class != ref.Fin {
			return "non-finite result for an exactly representable true result", ex.String(), cell
		}
		t := valF(ex)
		if ex.Neg {
			t.Neg(t)
		}
		u, _ := ulpAt(t)
		g := valF(got)
		if got.Neg {
			g.Neg(g)
		}
		err := new(big.Float).SetPrec(700).Sub(g, t)
		err.Abs(err)
		// valF rounds to 700 bits: a 2^-600 guard relative to the operands covers it; plus the any-mode slack
		guard := new(big.Float).SetPrec(700).Abs(t)
		if ag := new(big.Float).Abs(g); ag.Cmp(guard) > 0 {
			guard = ag
		}
		guard.SetMantExp(guard, -600)
		guard.Add(guard, new(big.Float).SetPrec(700).Mul(u, anyModeSlack))
		if err.Cmp(new(big.Float).SetPrec(700).Add(u, guard)) > 0 {
			return "more than one ulp from the exactly representable true result", ex.String(), cell
		}
		return "", "", cell
	}
	verdict, want, cell = judgeElemSlack(fn, x, got, anyModeSlack)
	switch cell {
	case "value", "subnormal-result", "nan", "undecided":
		return verdict, want, cell
	}
	return "", "", "range-end(default mode only)"
}

// anyModeSlack: under a directed default mode a faithfully rounded result of a true value that lies within a hair of a
// representable number (Exp(-2e-60) = 1 - 2e-60, Log(1+1e-30) = 1e-30 - 5e-61 + 3e-91) can land one unit plus that
// hair away (the guard digits erred on the other side of the representable number). Such results are not flagged:
// the bound applied under the non-default modes is (1 + 1e-20) units.
var anyModeSlack = new(big.Float).SetPrec(700).Quo(big.NewFloat(1), new(big.Float).SetInt(ref.Pow10(20)))

func checkElemDRM(w *eng.W, fi int, b ref.Bits, drm int) {
	fn := elemFns[fi]
	x := ref.Decode(b)
	if x.Class != ref.Fin || !fn.domain(x) {
		return
	}
	w.Set1(fn.name, "", b)
	got := ref.Decode(B(fn.lib(D(b))))
	w.Eval()
	verdict, want, cell := judgeElemAnyMode(fn.name, x, got)
	w.Cell(fn.name+"/any-default-mode/"+cell, true)
	if verdict != "" {
		w.R.Fail(eng.Case{Op: fn.name, Args: []string{b.Hex()}, DRM: MName(drm), Got: got.String(), Want: want, Note: verdict + "; x=" + x.String()})
	}
}

func init() {
	for i, f := range elemFns {
		i, f := i, f
		Replayers[f.name] = func(c eng.Case) (string, string, error) {
			b, err := ref.ParseHex(c.Args[0])
			if err != nil {
				return "", "", err
			}
			if c.DRM != "" && ModeIndex(c.DRM) > 0 {
				saved := dec.DefaultRoundingMode
				dec.DefaultRoundingMode = LibModes[ModeIndex(c.DRM)]
				got := V(elemFns[i].lib(D(b)))
				dec.DefaultRoundingMode = saved
				verdict, want, _ := judgeElemAnyMode(f.name, ref.Decode(b), got)
				if verdict == "" {
					return "ok", "ok", nil
				}
				return got.String(), want + " (" + verdict + ")", nil
			}
			got := V(elemFns[i].lib(D(b)))
			verdict, want, _ := judgeElem(f.name, ref.Decode(b), got)
			if verdict == "" {
				return "ok", "ok", nil
			}
			return got.String(), want + " (" + verdict + ")", nil
		}
	}
	Checks["C16"] = Check{C16, "exploration"}
}

// elemArgs builds the argument alphabet (bit patterns) shared by the eight functions; each function
// takes the subset inside its domain.
func elemArgs(thorough bool) []ref.Bits {
	seen := map[ref.Bits]bool{}
	var out []ref.Bits
	add := func(neg bool, c *big.Int, q int) {
		v, ok := ref.Fit(neg, c, q)
		if !ok || c.Sign() == 0 {
			return
		}
		b := MkBits(neg, v.C, v.Q)
		if !seen[b] {
			seen[b] = true
			out = append(out, b)
		}
	}
	for _, q := range []int{ref.MinQ, -3, 0, 2, ref.MaxQ} {
		out = append(out, MkBits(false, new(big.Int), q), MkBits(true, new(big.Int), q))
	}
	js := []int64{1, 2, 5, 9}
	// (i) +-j*10^k over the whole exponent range
	for k := ref.MinQ; k <= ref.MaxQ; k++ {
		dense := k >= -80 && k <= 60
		if !thorough && !dense && k%9 != 0 && k > ref.MinQ+3 && k < ref.MaxQ-3 {
			continue
		}
		for _, j := range js {
			if !dense && j != 1 && j != 9 && !thorough {
				continue
			}
			add(false, big.NewInt(j), k)
			add(true, big.NewInt(j), k)
		}
	}
	// (ii) 1 +- j*10^-k, and the 34/35-digit neighbours of 1
	for k := 1; k <= 34; k++ {
		for _, j := range []int64{1, 2, 5, 9} {
			p := ref.Pow10(k)
			add(false, new(big.Int).Add(p, big.NewInt(j)), -k)
			add(false, new(big.Int).Sub(p, big.NewInt(j)), -k)
			add(true, new(big.Int).Sub(p, big.NewInt(j)), -k) // for Log1p close to -1
		}
	}
	add(false, new(big.Int).Sub(ref.Pow10(35), big.NewInt(1)), -35)
	// (iii) every two-digit leading pair with fraction shapes
	for ab := int64(10); ab <= 99; ab++ {
		base := new(big.Int).Mul(big.NewInt(ab), ref.Pow10(32))
		for _, fr := range []*big.Int{big.NewInt(0), big.NewInt(1), new(big.Int).Mul(big.NewInt(5), ref.Pow10(31)), new(big.Int).Sub(ref.Pow10(32), big.NewInt(1))} {
			c := new(big.Int).Add(base, fr)
			add(false, c, -33)
			add(false, c, -34) // 0.ab...: just below 1 for ab >= 90
			add(true, c, -34)
			if thorough || ab%7 == 0 {
				add(false, c, -32)
				add(false, c, -35)
				add(true, c, -33)
				add(false, c, 100)
			}
		}
		add(false, big.NewInt(ab), -1)
		add(true, big.NewInt(ab), -1)
		add(false, big.NewInt(ab), 0)
		add(true, big.NewInt(ab), -2)
	}
	// (iii-b) leading digits at the binary accumulator limits (2^64, 2^128, 2^192, 2^256 scaled by powers of ten), as the
	// argument itself, as its fraction, and as the part after "1.0" for the logarithms
	for _, ps := range LimitPrefixes() {
		c := bi(ps)
		if c.Cmp(ref.Cmax) > 0 {
			continue
		}
		L := len(ps)
		for _, sh := range []int{-L, -L + 1, -L + 2, -L - 1, -L - 3} {
			add(false, c, sh)
			add(true, c, sh)
		}
		// ... and at every magnitude 10^-45..10^80: Log1p forms the integer 1+x (up to 192 bits wide) and the
		// reductions of e^x scale by powers of ten, so the limit can be met at any decimal scale
		for m := -45; m <= 80; m++ {
			if thorough || m%2 == 0 || (m >= 36 && m <= 42) {
				add(false, c, m-L)
			}
		}
		// 1.0 + 0.0<prefix>
		if L+2 <= 34 {
			one := new(big.Int).Add(ref.Pow10(L+1), c)
			add(false, one, -(L + 1))
			add(false, new(big.Int).Sub(ref.Pow10(L+1), c), -(L + 1))
		}
	}
	// (iv) exact cases: integers (Exp10/Exp2 arguments), powers of two, powers of ten are in (i)
	for n := int64(-6200); n <= 6200; n++ {
		if thorough || n%5 == 0 || (n > -70 && n < 140) || n < -6150 || n > 6100 {
			add(n < 0, big.NewInt(absI64(n)), 0)
		}
	}
	for n := 0; n <= 116; n++ {
		add(false, pow2(n), 0)
		if n <= 50 {
			add(false, new(big.Int).Exp(big.NewInt(5), big.NewInt(int64(n)), nil), -n) // 2^-n
		}
	}
	// around |x| = 32767*ln(10) = 75445.6, where the result's decimal exponent passes 2^15
	for _, n := range []int64{75000, 75400, 75440, 75445, 75446, 75450, 75500, 75600, 76000, 80000, 99999, 108846, 108847, 32767, 32768} {
		add(false, big.NewInt(n), 0)
		add(true, big.NewInt(n), 0)
	}
	for _, n := range []int64{20414, 20415, 20516, 20517, 20000, 14149, 14150, 14220, 14221, 14222, 6145, 6146, 6176, 6177} {
		add(false, big.NewInt(n), 0)
		add(true, big.NewInt(n), 0)
	}
	// (v) thresholds, to a few ulps: ln(max), ln(1e-6176), ln(1e-6177) and their base-2/base-10 counterparts
	c := hp.Get(hpP2)
	lnMax := c.LnDec(ref.Cmax, ref.MaxQ)
	lnMin := c.LnDec(one, ref.MinQ)
	lnTiny := c.LnDec(one, ref.MinQ-1)
	ths := []*big.Float{lnMax, lnMin, lnTiny,
		new(big.Float).Quo(lnMax, c.Ln2()), new(big.Float).Quo(lnMin, c.Ln2()), new(big.Float).Quo(lnTiny, c.Ln2()),
		new(big.Float).Quo(lnMax, c.Ln10()), new(big.Float).Quo(lnMin, c.Ln10()), new(big.Float).Quo(lnTiny, c.Ln10())}
	for _, th := range ths {
		s := new(big.Float).Abs(th).Text('e', 33) // 34 significant digits
		i := strings.IndexByte(s, 'e')
		e, _ := strconv.Atoi(s[i+1:])
		cc := bi(strings.Replace(s[:i], ".", "", 1))
		for d := int64(-3); d <= 3; d++ {
			add(th.Sign() < 0, new(big.Int).Add(cc, big.NewInt(d)), e-33)
		}
		for _, d := range []int64{-1000000, 1000000, -100000000000000, 100000000000000} {
			add(th.Sign() < 0, new(big.Int).Add(cc, big.NewInt(d)), e-33)
		}
		// coarse neighbourhood
		ip := new(big.Int)
		new(big.Float).Abs(th).Int(ip)
		for d := int64(-2); d <= 2; d++ {
			add(th.Sign() < 0, new(big.Int).Add(ip, big.NewInt(d)), 0)
			add(th.Sign() < 0, new(big.Int).Add(new(big.Int).Mul(ip, big.NewInt(10)), big.NewInt(d)), -1)
		}
	}
	// (vi) shapes over exponents
	shapes := SmallShapes()
	for _, K := range shapes {
		for e := ref.MinQ; e <= ref.MaxQ; e++ {
			if thorough && e%3 == 0 || e%67 == 0 || (e > -45 && e < 12) || e < ref.MinQ+2 || e > ref.MaxQ-2 {
				add(false, K, e)
				if e > -45 && e < 5 {
					add(true, K, e)
				}
			}
		}
	}
	// (vii) word-structured coefficients (a whole 64-bit word of the coefficient zero, all ones, or at a decimal
	// limit): the multi-word helpers test and carry word by word
	for _, K := range WordShapes() {
		L := len(K.String())
		for _, sh := range []int{-L - 60, -L - 40, -L - 28, -L - 25, -L - 10, -L - 3, -L - 1, -L, -L + 1, -L + 3, 0, 40} {
			if !thorough && (sh == -L-60 || sh == -L-25 || sh == -L+3) {
				continue
			}
			add(false, K, sh)
			add(true, K, sh)
		}
	}
	// (viii) fractions whose digits, read backwards, are a word-structured number (Exp2 separates integer and
	// fractional digits by reversing the digit string through a 128-bit accumulator)
	revs := WordShapes()
	for k := 64; k <= 112; k++ {
		revs = append(revs, pow2(k))
	}
	for _, K := range revs {
		ds := []byte(K.String())
		for i, j := 0, len(ds)-1; i < j; i, j = i+1, j-1 {
			ds[i], ds[j] = ds[j], ds[i]
		}
		fr := bi(string(ds))
		if fr.Sign() == 0 {
			continue
		}
		L := len(ds)
		for _, n := range []int64{0, 1, 7, 64} {
			if !thorough && n == 64 {
				continue
			}
			c := new(big.Int).Add(new(big.Int).Mul(big.NewInt(n), ref.Pow10(L)), fr)
			add(false, c, -L)
			add(true, c, -L)
		}
	}
	return out
}

func absI64(a int64) int64 {
	if a < 0 {
		return -a
	}
	return a
}

func C16(r *eng.Run) {
	r.Rule = "argument alphabet per function: +-j*10^k over the whole exponent range (dense near 1, every k in the thorough tier), 1+-j*10^-k for k=1..34 and the 35-digit neighbour of 1, every two-digit leading pair (all 90 logarithm-table slots) with fraction shapes at both ends of each slot, " +
		"all exact cases (integers for Exp10/Exp2, powers of two and ten for the logarithms, zeros, 1), the overflow/underflow thresholds of Exp/Exp2/Exp10 to +-3 units in the last place, and coefficient shapes across exponents; " +
		"oracle: exp/log evaluated on math/big.Float at two working precisions (320 and 512 bits) forming an enclosure; a result is rejected only if its error exceeds one unit in the last place at the true result over the whole enclosure, accepted only if it is within it over the whole enclosure, otherwise counted undecided; " +
		"exactly representable true results must be returned exactly; Inf/zero only beyond the range. Non-trivial = exact cases, thresholds, subnormal and saturating results."
	r.Assumptions = []string{"binary codec is the identity on bits (checked at start; decided by C12)", "exactness of representable results and the Inf/zero conventions at the range ends are judged under DefaultRoundingMode = ToNearestEven; the one-ulp bound under all six",
		"the oracle is numerical: two-precision enclosure with a 2^-280 relative guard; cross-checked against the repository's 135 vectors per function on every run"}
	if !CodecSanity(r) {
		return
	}
	t0 := time.Now()
	c16Vectors(r)
	r.Phase("oracle vs repository vectors", t0, nil)
	args := elemArgs(r.Thorough())
	r.Bounds["arguments"] = len(args)
	r.Bounds["functions"] = len(elemFns)
	t0 = time.Now()
	r.Par(len(args)*len(elemFns), func(w *eng.W, k int) {
		checkElem(w, k%len(elemFns), args[k/len(elemFns)])
	})
	r.Extra["undecided"] = elemUndecided.Load()
	r.Phase("argument alphabet x 8 functions", t0, nil)
	// the one-ulp bound under every other DefaultRoundingMode (the functions round their extended result with it)
	t0 = time.Now()
	saved := dec.DefaultRoundingMode
	for drm := 1; drm < 6; drm++ {
		dec.DefaultRoundingMode = LibModes[drm]
		r.Par(len(args)*len(elemFns), func(w *eng.W, k int) {
			ai := k / len(elemFns)
			// each argument is judged under one other mode, chosen by its bits (the same choice in both tiers)
			if int(((args[ai].Hi()*0x9e3779b97f4a7c15)^(args[ai].Lo()*0xc2b2ae3d27d4eb4f))>>17%5) != drm-1 {
				return
			}
			checkElemDRM(w, k%len(elemFns), args[ai], drm)
		})
	}
	dec.DefaultRoundingMode = saved
	r.Extra["undecided"] = elemUndecided.Load()
	r.Phase("one-ulp bound under the five other default rounding modes", t0, nil)
	for _, f := range elemFns {
		r.Require(f.name+"/value", f.name+"/exact-case", f.name+"/any-default-mode/value", f.name+"/any-default-mode/exact-case")
	}
	r.Require("Exp/sure-overflow", "Exp/sure-underflow", "Expm1/expm1-saturated", "Exp/subnormal-result", "Exp10/above-max")
}

// c16Vectors: the oracle must accept every expected value in the repository's vectors (binding the oracle to them).
func c16Vectors(r *eng.Run) {
	dirs := map[string]string{"Exp": "TestExp", "Exp2": "TestExp2", "Exp10": "TestExp10", "Expm1": "TestExpm1", "Log": "TestLog", "Log2": "TestLog2", "Log10": "TestLog10", "Log1p": "TestLog1p"}
	for _, f := range elemFns {
		vs := ReadVectors(r, dirs[f.name])
		if len(vs) == 0 {
			r.SelfFail("no vectors for %s", f.name)
			continue
		}
		bad := 0
		for _, v := range vs {
			if v.File != "simple.txt" {
				continue // edge.txt pins some results the property contradicts (e.g. log1p(4294967295e-6176) = +Inf); those are findings, not oracle errors
			}
			i := strings.IndexByte(v.LHS, '(')
			j := strings.LastIndexByte(v.LHS, ')')
			if i < 0 || j < 0 {
				continue
			}
			al, ok := ref.ParseLit(v.LHS[i+1 : j])
			el, ok2 := ref.ParseLit(v.RHS[0])
			if !ok || !ok2 || al.Class != ref.Fin || el.Class == ref.NaN {
				continue
			}
			x := ref.RoundLit(al, ref.NearestEven)
			if !f.domain(x) {
				continue
			}
			want := ref.RoundLit(el, ref.NearestEven)
			if f.name == "Expm1" && x.C.Sign() == 0 && x.Neg {
				continue // the vector pins Expm1(-0)=+0, which the property contradicts (known finding)
			}
			verdict, _, _ := judgeElem(f.name, x, want)
			r.Traces.Add(1)
			if verdict != "" && bad < 3 {
				bad++
				r.SelfFail("oracle rejects repository vector %s:%d %s = %s: %s", v.File, v.Line, v.LHS, v.RHS[0], verdict)
			}
		}
	}
}
