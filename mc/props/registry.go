package props

import "verifmc/eng"

// Replayers re-execute one recorded case without the explorer: returns (got, want).
var Replayers = map[string]func(c eng.Case) (string, string, error){}

// Checks maps property id to its decision procedure and claimed level.
type Check struct {
	Fn    func(r *eng.Run)
	Level string
}

var Checks = map[string]Check{}
