package props

import (
	"bytes"
	"fmt"
	"math/big"
	"time"

	dec "github.com/woodsbury/decimal128"

	"verifmc/eng"
	"verifmc/ref"
)

// Ownership of returned memory (purity clause of C20: "never modifies its inputs or any shared state", results
// are a function of the arguments). Every entry point that returns a byte slice is called on an ordered pair of
// values (a, b); the first result is kept while the second is produced, then each result is overwritten over its
// whole capacity - which the caller is entitled to do with memory it was given - and the calls are repeated.
// A result that changes when another call runs (a pooled or reused buffer handed out), two results sharing
// memory, or a later call that returns different bytes because the caller wrote into an earlier result (the
// library handed out one of its own tables) all fail here. It is a differential check between executions that
// must be indistinguishable: no reference value is involved.
type ownAPI struct {
	name string
	f    func(d dec.Decimal) []byte
}

func ownAPIs() []ownAPI {
	var out []ownAPI
	out = append(out,
		ownAPI{"MarshalText", func(d dec.Decimal) []byte { b, _ := d.MarshalText(); return b }},
		ownAPI{"MarshalJSON", func(d dec.Decimal) []byte { b, _ := d.MarshalJSON(); return b }},
		ownAPI{"MarshalBinary", func(d dec.Decimal) []byte { b, _ := d.MarshalBinary(); return b }},
		ownAPI{"Decompose(nil)", func(d dec.Decimal) []byte { _, _, c, _ := d.Decompose(nil); return c }},
		ownAPI{"Decompose(cap16)", func(d dec.Decimal) []byte { _, _, c, _ := d.Decompose(make([]byte, 0, 16)); return c }},
		ownAPI{"String", func(d dec.Decimal) []byte { return []byte(d.String()) }},
		ownAPI{"Sprintf(%v)", func(d dec.Decimal) []byte { return []byte(fmt.Sprintf("%v|%8.3e|%+g", d, d, d)) }},
	)
	bufs := []struct {
		n string
		f func() []byte
	}{
		{"nil", func() []byte { return nil }},
		{"empty-cap0", func() []byte { return []byte{} }},
		{"empty-cap1", func() []byte { return make([]byte, 0, 1) }},
		{"empty-cap64", func() []byte { return make([]byte, 0, 64) }},
		{"full-ab", func() []byte { return []byte("ab")[:2:2] }},
		{"ab-cap64", func() []byte { return append(make([]byte, 0, 64), "ab"...) }},
	}
	for _, bf := range bufs {
		bf := bf
		for _, verb := range []byte{'e', 'f', 'g', 'G'} {
			for _, prec := range []int{-1, 0, 3} {
				verb, prec := verb, prec
				out = append(out, ownAPI{fmt.Sprintf("Append(%s,%c,%d)", bf.n, verb, prec), func(d dec.Decimal) []byte { return dec.Append(bf.f(), d, verb, prec) }})
			}
		}
		for _, spec := range []string{"g", "v", "e", "8.2f", "-10.3e", "+012g", "6G", " .0f"} {
			spec := spec
			out = append(out, ownAPI{fmt.Sprintf("Decimal.Append(%s,%q)", bf.n, spec), func(d dec.Decimal) []byte { return d.Append(bf.f(), spec) }})
		}
	}
	return out
}

func scribble(b []byte) {
	b = b[:cap(b)]
	for i := range b {
		b[i] = 0xee
	}
}

func c20Ownership(r *eng.Run) {
	t0 := time.Now()
	var vals []dec.Decimal
	for _, hi := range []uint64{0x7c00000000000000, 0xfc00000000000000, 0x7e00000000000123, 0x7800000000000000, 0xf800000000000000, 0x7a000000000000ff} {
		vals = append(vals, D(ref.FromWords(hi, 0)))
	}
	vals = append(vals, Mk(false, new(big.Int), 0), Mk(true, new(big.Int), -3), Mk(false, big.NewInt(15), -1), Mk(true, big.NewInt(7), 0),
		Mk(false, ref.Cmax, ref.MaxQ), Mk(true, bi("1234567890123456789012345678901234"), -6176), Mk(false, big.NewInt(1), 40), Mk(false, big.NewInt(123), -2))
	apis := ownAPIs()
	r.Bounds["ownership_entry_points"] = len(apis)
	r.Bounds["ownership_values"] = len(vals)
	r.Par(len(apis), func(w *eng.W, k int) {
		a := apis[k]
		fail := func(x, y dec.Decimal, got []byte, want []byte, what string) {
			w.R.Fail(eng.Case{Op: "pure:ownership:" + a.name, Args: []string{bstr(x), bstr(y)}, Got: fmt.Sprintf("%q", got), Want: fmt.Sprintf("%q (%s)", want, what)})
		}
		for _, x := range vals {
			for _, y := range vals {
				w.Set2("ownership:"+a.name, "", B(x), B(y))
				var r1, r2, r3, r4 []byte
				var w1, w2 []byte
				p, msg := guard(func() {
					r1 = a.f(x)
					w1 = bytes.Clone(r1)
					r2 = a.f(y)
					w2 = bytes.Clone(r2)
				})
				w.EvalN(4)
				if p {
					// documented or not, panics are judged by the totality phases; nothing to compare here
					_ = msg
					continue
				}
				if !bytes.Equal(r1, w1) {
					fail(x, y, r1, w1, "first result changed while the second call ran")
					continue
				}
				scribble(r1)
				if !bytes.Equal(r2, w2) {
					fail(x, y, r2, w2, "second result shares memory with the first")
					continue
				}
				guard(func() { r3 = a.f(x) })
				if !bytes.Equal(r3, w1) {
					fail(x, y, r3, w1, "same call returns something else after the caller overwrote an earlier result")
					continue
				}
				scribble(r2)
				scribble(r3)
				guard(func() { r4 = a.f(y) })
				if !bytes.Equal(r4, w2) {
					fail(x, y, r4, w2, "same call returns something else after the caller overwrote earlier results")
				}
			}
		}
		w.Cell("pure/ownership-of-returned-memory", true)
	})
	// big.Int / big.Rat / big.Float results: mutate what was returned (in place, through every pointer it exposes),
	// call again, compare. A result that is (or shares words with) a cached table entry fails here.
	r.Seq(func(w *eng.W) {
		var bvals []dec.Decimal
		for _, k := range []int{0, 1, 2, 17, 18, 19, 20, 38, 39, 40, 100, 6111} {
			bvals = append(bvals, Mk(false, big.NewInt(1), k), Mk(true, big.NewInt(1), -k%6177))
		}
		bvals = append(bvals, Mk(false, new(big.Int), 0), Mk(false, big.NewInt(15), -1), Mk(true, ref.Cmax, 0), Mk(false, ref.Cmax, ref.MaxQ), Mk(false, big.NewInt(3), ref.MinQ), Mk(false, pow2(64), 0), Mk(false, pow2(113), -5))
		for _, x := range bvals {
			for _, y := range bvals {
				w.Set2("ownership:big", "", B(x), B(y))
				i1 := x.Int(nil)
				r1 := x.Rat(nil)
				f1 := x.Float(nil)
				wi, wr, wf := i1.String(), r1.String(), f1.Text('p', 0)
				i2, r2, f2 := y.Int(nil), y.Rat(nil), y.Float(nil)
				wi2, wr2, wf2 := i2.String(), r2.String(), f2.Text('p', 0)
				if i1.String() != wi || r1.String() != wr || f1.Text('p', 0) != wf {
					w.R.Fail(eng.Case{Op: "pure:ownership:Int/Rat/Float", Args: []string{bstr(x), bstr(y)}, Got: i1.String() + " " + r1.String() + " " + f1.Text('p', 0), Want: wi + " " + wr + " " + wf + " (first results changed while the second calls ran)"})
					continue
				}
				// mutate the first results in place
				i1.Lsh(i1, 3).Add(i1, big.NewInt(777))
				r1.Num().Add(r1.Num(), big.NewInt(5))
				r1.Denom().Add(r1.Denom(), big.NewInt(2))
				f1.SetMantExp(f1, 7).Neg(f1)
				if i2.String() != wi2 || r2.String() != wr2 || f2.Text('p', 0) != wf2 {
					w.R.Fail(eng.Case{Op: "pure:ownership:Int/Rat/Float", Args: []string{bstr(x), bstr(y)}, Got: i2.String() + " " + r2.String() + " " + f2.Text('p', 0), Want: wi2 + " " + wr2 + " " + wf2 + " (second results share memory with the first)"})
					continue
				}
				i3, r3, f3 := x.Int(nil), x.Rat(nil), x.Float(nil)
				w.EvalN(9)
				if i3.String() != wi || r3.String() != wr || f3.Text('p', 0) != wf {
					w.R.Fail(eng.Case{Op: "pure:ownership:Int/Rat/Float", Args: []string{bstr(x), bstr(y)}, Got: i3.String() + " " + r3.String() + " " + f3.Text('p', 0), Want: wi + " " + wr + " " + wf + " (same calls return something else after the caller modified earlier results)"})
				}
			}
		}
		w.Cell("pure/ownership-of-big-results", true)
	})
	r.Phase("purity: ownership of returned memory", t0, nil)
	r.Require("pure/ownership-of-returned-memory", "pure/ownership-of-big-results")
}

// c20StructuredPairs: totality of the binary arithmetic entry points on operand pairs whose product, quotient or
// aligned sum sits at a binary word limit (digit prefixes of 2^64..2^256 padded to every length, against m*10^j):
// the helpers' single-instruction fast paths (bits.Div64 and friends) panic when a guard on one word is off by one.
func c20StructuredPairs(r *eng.Run) {
	t0 := time.Now()
	lps := LimitPrefixes()
	r.Par(len(lps), func(w *eng.W, i int) {
		p := bi(lps[i])
		L := len(lps[i])
		if L > 35 {
			return
		}
		var n int64
		for pad := 0; pad <= 35-L; pad++ {
			a := new(big.Int).Mul(p, ref.Pow10(pad))
			if a.Cmp(ref.Cmax) > 0 {
				continue
			}
			for j := 0; j <= 34; j++ {
				for _, m := range []int64{1, 2, 5} {
					b := new(big.Int).Mul(big.NewInt(m), ref.Pow10(j))
					if b.Cmp(ref.Cmax) > 0 {
						continue
					}
					x, y := Mk(false, a, -pad), Mk(j%2 == 1, b, -j)
					w.Set2("total:structured-pairs", "", B(x), B(y))
					pn, msg := guard(func() {
						for mo := 0; mo < 6; mo += 5 {
							x.MulWithMode(y, LibModes[mo])
							x.QuoWithMode(y, LibModes[mo])
							y.QuoWithMode(x, LibModes[mo])
							x.AddWithMode(y, LibModes[mo])
							x.SubWithMode(y, LibModes[mo])
							x.QuoRemWithMode(y, LibModes[mo])
							y.QuoRemWithMode(x, LibModes[mo])
						}
						x.Cmp(y)
						x.Equal(y)
						x.CmpAbs(y)
					})
					n += 17
					if pn {
						w.R.Fail(eng.Case{Op: "total:structured-pairs", Args: []string{bstr(x), bstr(y)}, Got: "panic: " + msg, Want: "no panic"})
					}
				}
			}
		}
		w.EvalN(n)
		w.Cell("total/structured-pairs", true)
	})
	r.Phase("totality: binary arithmetic on binary-limit operand pairs", t0, nil)
	r.Require("total/structured-pairs")
}
