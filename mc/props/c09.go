package props

import (
	"fmt"
	"math"
	"math/big"
	"strings"
	"time"

	dec "github.com/woodsbury/decimal128"

	"verifmc/eng"
	"verifmc/ref"
)

func mantShapes(bits int) []uint64 {
	full := uint64(1)<<uint(bits) - 1
	out := []uint64{0, 1, 2, 3, full, full - 1, full >> 1, (full >> 1) + 1, 0x5555555555555555 & full, 0xaaaaaaaaaaaaaaaa & full, 0x123456789abcd & full, 0xfedcba9876543 & full}
	for k := 0; k < bits; k += 3 {
		out = append(out, uint64(1)<<uint(k), full&^(uint64(1)<<uint(k)), full<<uint(k)&full, full>>uint(k))
	}
	// decimal-looking mantissas (values like 0.1, 0.3 produce these)
	for _, f := range []float64{0.1, 0.2, 0.3, 0.7, 1.1, 2.5, 1e22, 1e23, 9007199254740993, 5e-324, 123456789.125} {
		out = append(out, math.Float64bits(f)&(1<<52-1)>>(52-uint(bits)))
	}
	seen := map[uint64]bool{}
	var d []uint64
	for _, v := range out {
		if !seen[v] {
			seen[v] = true
			d = append(d, v)
		}
	}
	return d
}

// ratOfFloat returns the exact value of a finite float64 as sign, numerator, denominator(power of two).
func ratOfFloat(f float64) (bool, *big.Int, *big.Int) {
	bitsv := math.Float64bits(f)
	neg := bitsv>>63 == 1
	e := int(bitsv >> 52 & 0x7ff)
	m := bitsv & (1<<52 - 1)
	if e == 0 {
		e = 1
	} else {
		m |= 1 << 52
	}
	sh := e - 1075
	num := new(big.Int).SetUint64(m)
	den := big.NewInt(1)
	if sh >= 0 {
		num.Lsh(num, uint(sh))
	} else {
		den.Lsh(den, uint(-sh))
	}
	return neg, num, den
}

func fromFloatWant(f float64) (ref.Val, ref.RInfo) {
	switch {
	case math.IsNaN(f):
		return ref.Val{Class: ref.NaN, C: new(big.Int)}, ref.RInfo{}
	case math.IsInf(f, 0):
		return ref.Val{Class: ref.Inf, Neg: f < 0}, ref.RInfo{}
	case f == 0:
		return ref.Zero(math.Signbit(f)), ref.RInfo{Exact: true, Event: "zero"}
	}
	neg, num, den := ratOfFloat(f)
	return ref.Round(neg, num, den, 0, ref.NearestEven)
}

func checkFromFloat64(w *eng.W, f float64) {
	want, info := fromFloatWant(f)
	w.SetS("FromFloat64", "", fmt.Sprintf("%016x", math.Float64bits(f)))
	d := dec.FromFloat64(f)
	gb := B(d)
	w.Eval()
	cell := "inexact"
	if info.Exact {
		cell = "exact"
	}
	if math.Float64bits(f)>>52&0x7ff == 0 {
		cell += "/subnormal-float"
	}
	w.Cell("FromFloat64/"+cell, !info.Exact)
	ok := Same(gb, want)
	if want.Class == ref.NaN {
		ok = ref.Decode(gb).Class == ref.NaN
	}
	if !ok {
		w.R.Fail(eng.Case{Op: "FromFloat64", Args: []string{fmt.Sprintf("%016x", math.Float64bits(f))}, Got: ref.Decode(gb).String(), Want: want.String(), Note: fmt.Sprint(f)})
		return
	}
	if !math.IsNaN(f) {
		if g := d.Float64(); math.Float64bits(g) != math.Float64bits(f) {
			w.R.Fail(eng.Case{Op: "FromFloat64.Float64", Args: []string{fmt.Sprintf("%016x", math.Float64bits(f))}, Got: fmt.Sprintf("%016x", math.Float64bits(g)), Want: "round trip", Note: fmt.Sprint(f)})
		}
	}
}

func checkFromFloat32(w *eng.W, f float32, oracle bool) {
	w.SetS("FromFloat32", "", fmt.Sprintf("%08x", math.Float32bits(f)))
	d := dec.FromFloat32(f)
	w.Eval()
	if oracle {
		want, _ := fromFloatWant(float64(f))
		gb := B(d)
		ok := Same(gb, want)
		if want.Class == ref.NaN {
			ok = ref.Decode(gb).Class == ref.NaN
		}
		if !ok {
			w.R.Fail(eng.Case{Op: "FromFloat32", Args: []string{fmt.Sprintf("%08x", math.Float32bits(f))}, Got: ref.Decode(gb).String(), Want: want.String(), Note: fmt.Sprint(f)})
			return
		}
	}
	if f == f {
		if g := d.Float32(); math.Float32bits(g) != math.Float32bits(f) {
			w.R.Fail(eng.Case{Op: "FromFloat32.Float32", Args: []string{fmt.Sprintf("%08x", math.Float32bits(f))}, Got: fmt.Sprintf("%08x", math.Float32bits(g)), Want: "round trip", Note: fmt.Sprint(f)})
		}
	}
}

var (
	maxF64Rat = new(big.Rat).SetFloat64(math.MaxFloat64)
	minF64Rat = new(big.Rat).SetFloat64(math.SmallestNonzeroFloat64)
	maxF32Rat = new(big.Rat).SetFloat64(math.MaxFloat32)
	minF32Rat = new(big.Rat).SetFloat64(math.SmallestNonzeroFloat32)
	twoTo1024 = new(big.Rat).SetInt(new(big.Int).Lsh(big.NewInt(1), 1024))
	twoTo128  = new(big.Rat).SetInt(new(big.Int).Lsh(big.NewInt(1), 128))
)

// adjacentOK decides whether float f (as float64 value; is32 selects the float32 grid) is an acceptable
// result for the exact value v: equal if representable, else one of the two bracketing floats.
func adjacentOK(v *big.Rat, f float64, is32 bool) (bool, string) {
	av := new(big.Rat).Abs(v)
	neg := v.Sign() < 0
	maxR, minR, top := maxF64Rat, minF64Rat, twoTo1024
	if is32 {
		maxR, minR, top = maxF32Rat, minF32Rat, twoTo128
	}
	if math.IsNaN(f) {
		return false, "NaN"
	}
	if v.Sign() != 0 && math.Signbit(f) != neg {
		return false, "wrong sign"
	}
	af := math.Abs(f)
	if math.IsInf(af, 0) {
		if av.Cmp(maxR) > 0 {
			return true, "inf"
		}
		return false, "Inf although within float range"
	}
	if av.Cmp(top) >= 0 {
		return false, "finite although beyond the float range"
	}
	if af == 0 {
		if av.Cmp(minR) < 0 {
			return true, "zero"
		}
		return false, "zero although not below the smallest float"
	}
	fr := new(big.Rat).SetFloat64(af)
	c := fr.Cmp(av)
	if c == 0 {
		return true, "exact"
	}
	var nb float64
	if is32 {
		if c < 0 {
			nb = float64(math.Nextafter32(float32(af), float32(math.Inf(1))))
		} else {
			nb = float64(math.Nextafter32(float32(af), 0))
		}
	} else {
		if c < 0 {
			nb = math.Nextafter(af, math.Inf(1))
		} else {
			nb = math.Nextafter(af, 0)
		}
	}
	// v must lie strictly between f and its neighbour on v's side
	if math.IsInf(nb, 0) {
		return true, "bracket-top"
	}
	nr := new(big.Rat).SetFloat64(nb)
	if c < 0 && av.Cmp(nr) < 0 || c > 0 && av.Cmp(nr) > 0 {
		return true, "bracket"
	}
	return false, "not adjacent to the exact value"
}

func checkToFloat(w *eng.W, b ref.Bits, v ref.Val) {
	w.Set1("Float64", "", b)
	d := D(b)
	f64 := d.Float64()
	f32 := d.Float32()
	w.EvalN(2)
	rv := v.Rat()
	ok, why := adjacentOK(rv, f64, false)
	w.Cell("Float64/"+why, why != "exact")
	if v.C.Sign() == 0 && (f64 != 0 || math.Signbit(f64) != v.Neg) {
		ok, why = false, "zero must map to a zero of the same sign"
	}
	if !ok {
		w.R.Fail(eng.Case{Op: "Float64", Args: []string{b.Hex()}, Got: fmt.Sprintf("%v (%016x)", f64, math.Float64bits(f64)), Want: "a float64 adjacent to " + v.String(), Note: why})
	}
	ok, why = adjacentOK(rv, float64(f32), true)
	w.Cell("Float32/"+why, why != "exact")
	if v.C.Sign() == 0 && (f32 != 0 || math.Signbit(float64(f32)) != v.Neg) {
		ok, why = false, "zero must map to a zero of the same sign"
	}
	if !ok {
		w.R.Fail(eng.Case{Op: "Float32", Args: []string{b.Hex()}, Got: fmt.Sprintf("%v (%08x)", f32, math.Float32bits(f32)), Want: "a float32 adjacent to " + v.String(), Note: why})
	}
}

var floatPrecs = []uint{0, 1, 2, 24, 53, 64, 113, 114, 128, 200}

func checkBigFloat(w *eng.W, b ref.Bits, v ref.Val) {
	d := D(b)
	rv := v.Rat()
	for _, prec := range floatPrecs {
		w.Set1I("Float", "", b, int64(prec))
		var arg *big.Float
		if prec != 0 {
			arg = new(big.Float).SetPrec(prec)
		}
		got := d.Float(arg)
		w.Eval()
		eff := prec
		if eff == 0 {
			eff = 128
		}
		if got == nil || got.Prec() != eff { // nil argument: the default 128 bits the property names
			w.R.Fail(eng.Case{Op: "Float", Args: []string{b.Hex(), fmt.Sprint(prec)}, Got: fmt.Sprint("result precision ", got.Prec()), Want: fmt.Sprint("precision ", eff)})
			continue
		}
		if got.Prec() != eff {
			eff = got.Prec()
		}
		if v.C.Sign() == 0 {
			if got.Sign() != 0 {
				w.R.Fail(eng.Case{Op: "Float", Args: []string{b.Hex(), fmt.Sprint(prec)}, Got: got.Text('g', 40), Want: "0"})
			}
			continue
		}
		if got.IsInf() {
			w.R.Fail(eng.Case{Op: "Float", Args: []string{b.Hex(), fmt.Sprint(prec)}, Got: "Inf", Want: v.String()})
			continue
		}
		gr, _ := got.Rat(nil)
		if eff >= 114 {
			want := new(big.Float).SetPrec(eff).SetRat(rv)
			w.Cell("Float/correctly-rounded", true)
			if want.Cmp(got) != 0 {
				w.R.Fail(eng.Case{Op: "Float", Args: []string{b.Hex(), fmt.Sprint(prec)}, Got: got.Text('p', 0), Want: want.Text('p', 0) + " (correctly rounded)", Note: v.String()})
			}
			continue
		}
		// relative error <= 2^(1-prec)
		diff := new(big.Rat).Sub(gr, rv)
		diff.Abs(diff)
		bound := new(big.Rat).Abs(rv)
		bound.Mul(bound, new(big.Rat).SetFrac(big.NewInt(2), new(big.Int).Lsh(big.NewInt(1), eff)))
		w.Cell("Float/relative-bound", true)
		if diff.Cmp(bound) > 0 {
			w.R.Fail(eng.Case{Op: "Float", Args: []string{b.Hex(), fmt.Sprint(prec)}, Got: got.Text('p', 0), Want: "relative error <= 2^(1-prec) of " + v.String()})
		}
	}
}

// checkFromBigFloat: |FromFloat(f) - f| <= 2e-33*|f| for f in the normal range; looser at the range ends.
func checkFromBigFloat(w *eng.W, f *big.Float, label string) {
	w.SetS("FromFloat", "", label)
	d := dec.FromFloat(f)
	w.Eval()
	gv := V(d)
	if f.IsInf() {
		if gv.Class != ref.Inf || gv.Neg != f.Signbit() {
			w.R.Fail(eng.Case{Op: "FromFloat", Args: []string{label}, Got: gv.String(), Want: "Inf"})
		}
		return
	}
	if f.Sign() == 0 {
		if !gv.IsZero() || gv.Neg != f.Signbit() {
			w.R.Fail(eng.Case{Op: "FromFloat", Args: []string{label}, Got: gv.String(), Want: "zero with the same sign"})
		}
		return
	}
	fr, _ := f.Rat(nil)
	af := new(big.Rat).Abs(fr)
	maxV := ref.Val{Class: ref.Fin, C: ref.Cmax, Q: ref.MaxQ}.Rat()
	if af.Cmp(maxV) > 0 {
		w.Cell("FromFloat/beyond-max", true)
		if gv.Class == ref.Inf && gv.Neg == (fr.Sign() < 0) {
			return
		}
	}
	if gv.Class != ref.Fin {
		w.R.Fail(eng.Case{Op: "FromFloat", Args: []string{label}, Got: gv.String(), Want: "within 2e-33 relative of " + f.Text('g', 40)})
		return
	}
	diff := new(big.Rat).Sub(gv.Rat(), fr)
	diff.Abs(diff)
	bound := new(big.Rat).Mul(af, new(big.Rat).SetFrac(big.NewInt(2), ref.Pow10(33)))
	minNormal := new(big.Rat).SetFrac(big.NewInt(1), ref.Pow10(6143))
	cell := "FromFloat/normal-range"
	if af.Cmp(minNormal) < 0 {
		bound.Add(bound, new(big.Rat).SetFrac(big.NewInt(1), ref.Pow10(6176)))
		cell = "FromFloat/subnormal-range"
	}
	w.Cell(cell, true)
	if diff.Cmp(bound) > 0 || (gv.C.Sign() != 0 && gv.Neg != (fr.Sign() < 0)) {
		w.R.Fail(eng.Case{Op: "FromFloat", Args: []string{label}, Got: gv.String(), Want: "within 2e-33 relative of " + f.Text('g', 40)})
	}
}

func init() {
	Replayers["FromFloat64"] = func(c eng.Case) (string, string, error) {
		var u uint64
		fmt.Sscanf(c.Args[0], "%x", &u)
		f := math.Float64frombits(u)
		want, _ := fromFloatWant(f)
		got := V(dec.FromFloat64(f))
		if ref.SameValue(got, want) {
			return want.String(), want.String(), nil
		}
		return got.String(), want.String(), nil
	}
	Replayers["Float64"] = func(c eng.Case) (string, string, error) {
		b, err := ref.ParseHex(c.Args[0])
		if err != nil {
			return "", "", err
		}
		f := D(b).Float64()
		ok, why := adjacentOK(ref.Decode(b).Rat(), f, false)
		if ok {
			return "ok", "ok", nil
		}
		return fmt.Sprint(f, " ", why), c.Want, nil
	}
	Replayers["FromFloat"] = func(c eng.Case) (string, string, error) {
		var txt string
		var prec uint
		if i := strings.IndexByte(c.Args[0], '@'); i > 0 {
			txt = c.Args[0][:i]
			fmt.Sscan(c.Args[0][i+1:], &prec)
		} else {
			return "", "", fmt.Errorf("no replay for %q", c.Args[0])
		}
		f, _, err := big.ParseFloat(txt, 0, prec, big.ToNearestEven)
		if err != nil {
			return "", "", err
		}
		return V(dec.FromFloat(f)).String(), c.Want, nil
	}
	Checks["C09"] = Check{C09, "exploration"}
}

func C09(r *eng.Run) {
	r.Rule = "FromFloat64: every binade exponent (all 2047 biased exponents incl. subnormals) x mantissa shapes x 2 signs + specials, oracle = exact m*2^e rounded nearest-even, plus the Float64 round trip; " +
		"FromFloat32: every float32 exponent x shapes (thorough: all 2^32 patterns for the round trip); Float64/Float32: coefficient shapes x every decimal exponent in -400..330 and range ends, " +
		"decided exactly on rationals (result equals the value if representable, else brackets it with its neighbour; Inf/0 only beyond the float range), halfway cases built from the float side; " +
		"Float: precisions {default,1,2,24,53,64,113,114,128,200} with the relative bound 2^(1-prec) and exact agreement with big.Float.SetRat for prec>=114; FromFloat within 2e-33 relative. " +
		"Non-trivial = inexact conversions, subnormal floats, range ends."
	r.Assumptions = []string{"binary codec is the identity on bits (checked at start; decided by C12)", "judged under DefaultRoundingMode = ToNearestEven only",
		"FromFloat tolerance is relaxed by one subnormal quantum below 1e-6143, where 2e-33 relative accuracy is unattainable in the format"}
	if !CodecSanity(r) {
		return
	}
	t0 := time.Now()
	ms := mantShapes(52)
	r.Bounds["float64_mantissa_shapes"] = len(ms)
	r.Par(2048, func(w *eng.W, e int) {
		for _, m := range ms {
			for s := uint64(0); s < 2; s++ {
				f := math.Float64frombits(s<<63 | uint64(e)<<52 | m)
				checkFromFloat64(w, f)
			}
		}
	})
	// dense round trip: a fixed Weyl sequence of "generic" mantissas x every exponent (no oracle needed: the round trip itself is the property)
	nm := 1 << 13
	if r.Thorough() {
		nm = 1 << 17
	}
	r.Bounds["weyl_mantissas_for_round_trip"] = nm
	r.Par(2047, func(w *eng.W, e int) {
		m := uint64(0)
		var bad int
		for i := 0; i < nm; i++ {
			m += 0x9e3779b97f4a7c15
			for s := uint64(0); s < 2; s++ {
				f := math.Float64frombits(s<<63 | uint64(e)<<52 | m>>12)
				if g := dec.FromFloat64(f).Float64(); math.Float64bits(g) != math.Float64bits(f) {
					bad++
					if bad <= 2 {
						w.R.Fail(eng.Case{Op: "FromFloat64.Float64", Args: []string{fmt.Sprintf("%016x", math.Float64bits(f))}, Got: fmt.Sprintf("%016x", math.Float64bits(g)), Want: "round trip", Note: fmt.Sprint(f)})
					}
				}
			}
		}
		w.EvalN(int64(2 * nm))
		w.CellN("FromFloat64/round-trip-generic-mantissas", int64(2*nm), true)
	})
	// the same with many more mantissas at a few exponents of every conversion path (conditions on one 64-bit word of an
	// intermediate product depend on the mantissa only)
	nm2 := 1 << 20
	if r.Thorough() {
		nm2 = 1 << 24
	}
	r.Bounds["weyl_mantissas_dense"] = nm2
	pathExps := []int{0, 1, 2, 700, 1000, 1022, 1023, 1024, 1050, 1074, 1075, 1076, 1100, 1215, 1216, 1300, 2000, 2046}
	r.Par(len(pathExps)*16, func(w *eng.W, k int) {
		e := pathExps[k/16]
		m := uint64(k%16) * 0x9e3779b97f4a7c15 * uint64(nm2/16)
		bad := 0
		for i := 0; i < nm2/16; i++ {
			m += 0x9e3779b97f4a7c15
			f := math.Float64frombits(uint64(i&1)<<63 | uint64(e)<<52 | m>>12)
			if g := dec.FromFloat64(f).Float64(); math.Float64bits(g) != math.Float64bits(f) {
				bad++
				if bad <= 2 {
					w.R.Fail(eng.Case{Op: "FromFloat64.Float64", Args: []string{fmt.Sprintf("%016x", math.Float64bits(f))}, Got: fmt.Sprintf("%016x", math.Float64bits(g)), Want: "round trip", Note: fmt.Sprint(f)})
				}
			}
		}
		w.EvalN(int64(nm2 / 16))
		w.CellN("FromFloat64/round-trip-dense-mantissas", int64(nm2/16), true)
	})
	// and the oracle on a thinner slice of the same sequence
	r.Par(2047, func(w *eng.W, e int) {
		m := uint64(0)
		for i := 0; i < 24; i++ {
			m += 0x9e3779b97f4a7c15
			checkFromFloat64(w, math.Float64frombits(uint64(e)<<52|m>>12))
		}
	})
	r.Phase("FromFloat64", t0, nil)

	t0 = time.Now()
	ms32 := mantShapes(23)
	r.Bounds["float32_mantissa_shapes"] = len(ms32)
	if r.Thorough() {
		r.Bounds["float32_patterns"] = "all 2^32 (round trip); oracle on shapes"
		r.Par(1<<16, func(w *eng.W, hi int) {
			for lo := 0; lo < 1<<16; lo++ {
				checkFromFloat32(w, math.Float32frombits(uint32(hi)<<16|uint32(lo)), false)
			}
			w.CellN("FromFloat32/roundtrip-all-patterns", 1<<16, true)
		})
	}
	r.Par(256, func(w *eng.W, e int) {
		for _, m := range ms32 {
			for s := uint32(0); s < 2; s++ {
				checkFromFloat32(w, math.Float32frombits(s<<31|uint32(e)<<23|uint32(m)), true)
			}
		}
		w.CellN("FromFloat32/oracle", int64(2*len(ms32)), true)
	})
	r.Phase("FromFloat32", t0, nil)

	t0 = time.Now()
	shapes := Shapes(true)
	var exps []int
	for q := -400; q <= 330; q++ {
		exps = append(exps, q)
	}
	exps = append(exps, ref.MinQ, ref.MinQ+1, -3000, -1000, -401, 331, 1000, 3000, ref.MaxQ-1, ref.MaxQ)
	r.Bounds["shapes"] = len(shapes)
	r.Bounds["decimal_exponents"] = len(exps)
	r.Par(len(shapes), func(w *eng.W, i int) {
		for _, q := range exps {
			for s := 0; s < 2; s++ {
				b := MkBits(s == 1, shapes[i], q)
				checkToFloat(w, b, ref.Decode(b))
			}
		}
	})
	// zeros and specials
	r.Seq(func(w *eng.W) {
		for _, b := range specialOperands() {
			v := ref.Decode(b)
			d := D(b)
			switch v.Class {
			case ref.NaN:
				if f := d.Float64(); !math.IsNaN(f) {
					w.R.Fail(eng.Case{Op: "Float64", Args: []string{b.Hex()}, Got: fmt.Sprint(f), Want: "NaN"})
				}
				if f := d.Float32(); f == f {
					w.R.Fail(eng.Case{Op: "Float32", Args: []string{b.Hex()}, Got: fmt.Sprint(f), Want: "NaN"})
				}
			case ref.Inf:
				sg := 1
				if v.Neg {
					sg = -1
				}
				if f := d.Float64(); !math.IsInf(f, sg) {
					w.R.Fail(eng.Case{Op: "Float64", Args: []string{b.Hex()}, Got: fmt.Sprint(f), Want: "Inf"})
				}
				if f := d.Float32(); !math.IsInf(float64(f), sg) {
					w.R.Fail(eng.Case{Op: "Float32", Args: []string{b.Hex()}, Got: fmt.Sprint(f), Want: "Inf"})
				}
				if f := d.Float(nil); !f.IsInf() || f.Signbit() != v.Neg {
					w.R.Fail(eng.Case{Op: "Float", Args: []string{b.Hex(), "0"}, Got: f.String(), Want: "Inf"})
				}
			default:
				checkToFloat(w, b, v)
			}
			w.Eval()
			w.Cell("Float64/special-or-zero", true)
		}
	})
	// halfway cases from the float side
	var halves []ref.Bits
	for j := -40; j <= 64; j++ {
		for _, m := range []uint64{1 << 52, 1<<52 + 1, 1<<53 - 2, 1<<53 - 1, 0x15555555555555, 0x1aaaaaaaaaaaab, 1 << 23, 1<<23 + 1, 1<<24 - 1, 0xaaaaab} {
			num := new(big.Int).SetUint64(2*m + 1)
			var c *big.Int
			q := 0
			if j-1 >= 0 {
				c = new(big.Int).Lsh(num, uint(j-1))
			} else {
				// (2m+1)/2^k = (2m+1)*5^k / 10^k
				k := -(j - 1)
				c = new(big.Int).Mul(num, new(big.Int).Exp(big.NewInt(5), big.NewInt(int64(k)), nil))
				q = -k
			}
			if v, ok := ref.Fit(false, c, q); ok {
				halves = append(halves, MkBits(false, v.C, v.Q), MkBits(true, v.C, v.Q))
			}
		}
	}
	r.Bounds["halfway_cases"] = len(halves)
	r.Par(len(halves), func(w *eng.W, i int) {
		checkToFloat(w, halves[i], ref.Decode(halves[i]))
		w.Cell("Float64/halfway-built-from-float-side", true)
	})
	r.Phase("Float64/Float32", t0, nil)

	t0 = time.Now()
	small := SmallShapes()
	fexps := []int{ref.MinQ, -6000, -400, -40, -1, 0, 1, 17, 40, 400, 6000, ref.MaxQ}
	r.Par(len(small), func(w *eng.W, i int) {
		for _, q := range fexps {
			for s := 0; s < 2; s++ {
				b := MkBits(s == 1, small[i], q)
				checkBigFloat(w, b, ref.Decode(b))
			}
		}
	})
	r.Phase("Float", t0, nil)

	// R: values reached by operation sequences
	rs9 := reachedAll(r)
	if !r.Thorough() {
		rs9 = strideBits(rs9, 30000)
	}
	reachedPhase(r, "R values reached by operation sequences", rs9, func(w *eng.W, b ref.Bits, v ref.Val) {
		checkToFloat(w, b, v)
		if b[15]%8 == 0 || r.Thorough() {
			checkBigFloat(w, b, v)
		}
	})

	t0 = time.Now()
	type bf struct {
		f *big.Float
		l string
	}
	var fs []bf
	for _, c := range small {
		for _, e := range []int{-6200, -6170, -6150, -6143, -6100, -400, -30, 0, 30, 400, 6000, 6110, 6144, 6145, 6150} {
			for _, prec := range []uint{24, 53, 113, 128, 300} {
				txt := fmt.Sprintf("%se%d", c.String(), e)
				f, _, err := big.ParseFloat(txt, 10, prec, big.ToNearestEven)
				if err != nil {
					continue
				}
				nf := new(big.Float).Neg(f)
				fs = append(fs, bf{f, fmt.Sprintf("%s@%d", f.Text('p', 0), f.Prec())}, bf{nf, fmt.Sprintf("%s@%d", nf.Text('p', 0), nf.Prec())})
			}
		}
	}
	for _, f := range []float64{0, math.Copysign(0, -1), 1, 0.1, 1.0 / 3, math.MaxFloat64, math.SmallestNonzeroFloat64, 1e22} {
		fs = append(fs, bf{big.NewFloat(f), fmt.Sprintf("%s@53", big.NewFloat(f).Text('p', 0))})
	}
	fs = append(fs, bf{new(big.Float).SetInf(false), "+Inf"}, bf{new(big.Float).SetInf(true), "-Inf"})
	r.Bounds["big_floats"] = len(fs)
	r.Par(len(fs), func(w *eng.W, i int) { checkFromBigFloat(w, fs[i].f, fs[i].l) })
	r.Phase("FromFloat", t0, nil)
	r.Require("FromFloat64/exact", "FromFloat64/inexact", "FromFloat64/inexact/subnormal-float", "Float64/exact", "Float64/bracket", "Float64/inf", "Float64/zero", "Float32/bracket", "Float/correctly-rounded", "Float/relative-bound", "FromFloat/normal-range")
}
