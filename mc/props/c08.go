package props

import (
	"fmt"
	"math"
	"math/big"
	"strings"
	"time"

	dec "github.com/woodsbury/decimal128"

	"verifmc/eng"
	"verifmc/ref"
)

func clampQuantum(dp int) int {
	q := -int64(dp)
	if dp == math.MinInt {
		q = 1 << 40
	}
	if q > 6300 {
		q = 6300
	}
	if q < -6300 {
		q = -6300
	}
	return int(q)
}

// roundWant: specification of d.Round(dp, mode) for finite d.
func roundWant(v ref.Val, dp int, m int) (ref.Val, string) {
	if v.C.Sign() == 0 {
		return ref.Zero(v.Neg), "zero"
	}
	qn := clampQuantum(dp)
	if v.Q >= qn {
		return v, "unchanged"
	}
	res, info := ref.Quantize(v, qn, Modes[m])
	cell := "g" + guardNames[guardClass(info.Guard)][1:]
	if info.Sticky {
		cell += "+"
	}
	if info.Event != "" {
		cell += "/" + info.Event
	}
	if res.Class == ref.Fin && res.C.Sign() == 0 {
		res = ref.Zero(v.Neg)
	}
	return res, cell
}

// ceilFloorWant: least multiple >= d (ceil) or greatest multiple <= d (floor).
func ceilFloorWant(v ref.Val, dp int, ceil bool) (ref.Val, string) {
	if v.C.Sign() == 0 {
		return ref.Zero(v.Neg), "zero"
	}
	qn := clampQuantum(dp)
	if v.Q >= qn {
		return v, "unchanged"
	}
	mode := ref.ToNegInf
	if ceil {
		mode = ref.ToPosInf
	}
	res, info := ref.QuantizeNoTiny(v, qn, mode)
	cell := "exact"
	if !info.Exact {
		cell = "inexact"
	}
	if info.Event != "" {
		cell += "/" + info.Event
	}
	if res.Class == ref.Fin && res.C.Sign() == 0 {
		res = ref.Zero(v.Neg)
		cell += "/to-zero"
	}
	return res, cell
}

func checkRound(w *eng.W, b ref.Bits, v ref.Val, dp int, m int) {
	want, cell := roundWant(v, dp, m)
	w.Set1I("Round", ref.ModeNames[m], b, int64(dp))
	d := D(b)
	g := d.Round(dp, LibModes[m])
	gb := B(g)
	w.Eval()
	w.Cell("Round/"+ref.ModeNames[m]+"/"+cell, cell != "unchanged" && cell != "zero")
	if !Same(gb, want) {
		w.R.Fail(eng.Case{Op: "Round", Args: []string{b.Hex(), itoa(dp)}, Mode: MName(m), Got: ref.Decode(gb).String(), Want: want.String(), Note: "d=" + v.String()})
		return
	}
	// idempotent under the same call
	if g2 := B(g.Round(dp, LibModes[m])); !Same(g2, want) {
		w.R.Fail(eng.Case{Op: "Round", Args: []string{gb.Hex(), itoa(dp)}, Mode: MName(m), Got: ref.Decode(g2).String(), Want: want.String(), Note: "idempotence: second application to the result of d=" + v.String()})
	}
}

func checkCeilFloor(w *eng.W, b ref.Bits, v ref.Val, dp int, ceil bool) {
	want, cell := ceilFloorWant(v, dp, ceil)
	name := "Floor"
	if ceil {
		name = "Ceil"
	}
	w.Set1I(name, "", b, int64(dp))
	d := D(b)
	var g dec.Decimal
	if ceil {
		g = d.Ceil(dp)
	} else {
		g = d.Floor(dp)
	}
	gb := B(g)
	w.Eval()
	sg := "pos"
	if v.Neg {
		sg = "neg"
	}
	w.Cell(name+"/"+sg+"/"+cell, cell != "unchanged" && cell != "zero")
	if !Same(gb, want) {
		w.R.Fail(eng.Case{Op: name, Args: []string{b.Hex(), itoa(dp)}, Got: ref.Decode(gb).String(), Want: want.String(), Note: "d=" + v.String()})
		return
	}
	var g2 dec.Decimal
	if ceil {
		g2 = g.Ceil(dp)
	} else {
		g2 = g.Floor(dp)
	}
	if !Same(B(g2), want) {
		w.R.Fail(eng.Case{Op: name, Args: []string{gb.Hex(), itoa(dp)}, Got: V(g2).String(), Want: want.String(), Note: "idempotence on result of d=" + v.String()})
	}
}

func init() {
	Replayers["Round"] = func(c eng.Case) (string, string, error) {
		b, err := ref.ParseHex(c.Args[0])
		var dp int
		fmt.Sscan(c.Args[1], &dp)
		m := ModeIndex(c.Mode)
		if err != nil || m < 0 {
			return "", "", fmt.Errorf("bad case")
		}
		want, _ := roundWant(ref.Decode(b), dp, m)
		got := V(D(b).Round(dp, LibModes[m]))
		if ref.SameValue(got, want) {
			return want.String(), want.String(), nil
		}
		return got.String(), want.String(), nil
	}
	cf := func(ceil bool) func(c eng.Case) (string, string, error) {
		return func(c eng.Case) (string, string, error) {
			b, err := ref.ParseHex(c.Args[0])
			var dp int
			fmt.Sscan(c.Args[1], &dp)
			if err != nil {
				return "", "", err
			}
			want, _ := ceilFloorWant(ref.Decode(b), dp, ceil)
			var got ref.Val
			if ceil {
				got = V(D(b).Ceil(dp))
			} else {
				got = V(D(b).Floor(dp))
			}
			if ref.SameValue(got, want) {
				return want.String(), want.String(), nil
			}
			return got.String(), want.String(), nil
		}
	}
	Replayers["Ceil"] = cf(true)
	Replayers["Floor"] = cf(false)
	Checks["C08"] = Check{C08, "exploration"}
}

var dpExtremes = []int{math.MinInt, math.MinInt + 1, -1 << 31, -1<<31 - 1, -65536, -32769, -32768, -12288, -7000, -6200, -6177, -6176, -6147, -6146, -6145, -6144, -6143, -6112, -6111, -6110, -100,
	100, 6111, 6144, 6175, 6176, 6177, 6211, 6212, 7000, 32767, 32768, 65536, 1<<31 - 1, 1 << 31, math.MaxInt - 1, math.MaxInt}

func C08(r *eng.Run) {
	r.Rule = "coefficient shapes K x exponent positions (every exponent in [-45,45] and windows at both range ends) x every dp in the window that cuts through or borders the digits (6 beyond each side) " +
		"plus extreme dp values (MinInt..MaxInt, +-2^31, +-6111..6177, +-7000) x 6 modes x 2 signs for Round, and Ceil/Floor on the same grid; package functions Round/Trunc/Ceil/Floor against dp=0; specials pass through. " +
		"Oracle: exact quantisation to a multiple of 10^-dp (tiny rule below a tenth of the quantum for Round; least/greatest multiple for Ceil/Floor), Inf only if that multiple is not a member; idempotence re-applied on every result. " +
		"Cell = (op, mode/sign, guard class, sticky, event); non-trivial = the call changed the value."
	r.Assumptions = []string{"binary codec is the identity on bits (checked at start; decided by C12)", "model bound to the repository's Round/Ceil/Floor vectors on every run",
		"when the rounded multiple exceeds the largest finite Decimal the oracle expects +-Inf (the property does not name another value)"}
	if !CodecSanity(r) {
		return
	}
	t0 := time.Now()
	c08Vectors(r)
	r.Phase("vectors", t0, nil)
	shapes := Shapes(r.Thorough())
	if !r.Thorough() {
		shapes = dedupe(append(shapes, WordShapes()...))
	}
	var exps []int
	for q := -45; q <= 45; q++ {
		exps = append(exps, q)
	}
	for k := 0; k <= 6; k++ {
		exps = append(exps, ref.MinQ+k, ref.MaxQ-k)
	}
	exps = append(exps, ref.MinQ+34, ref.MinQ+35, ref.MaxQ-34, ref.MaxQ-35, -3000, 3000)
	r.Bounds["shapes"] = len(shapes)
	r.Bounds["exponent_positions"] = len(exps)
	r.Bounds["extreme_dp"] = len(dpExtremes)
	t0 = time.Now()
	r.Par(len(shapes), func(w *eng.W, i int) {
		c := shapes[i]
		L := ref.NumDigits(c)
		for _, q := range exps {
			var dps []int
			for dp := -(q + L) - 6; dp <= -q+6; dp++ {
				dps = append(dps, dp)
			}
			dps = append(dps, dpExtremes...)
			for s := 0; s < 2; s++ {
				b := MkBits(s == 1, c, q)
				v := ref.Decode(b)
				for _, dp := range dps {
					for m := 0; m < 6; m++ {
						checkRound(w, b, v, dp, m)
					}
					checkCeilFloor(w, b, v, dp, true)
					checkCeilFloor(w, b, v, dp, false)
				}
			}
		}
	})
	r.Phase("A1 grid", t0, nil)

	// package-level functions and specials
	t0 = time.Now()
	r.Par(len(shapes), func(w *eng.W, i int) {
		c := shapes[i]
		L := ref.NumDigits(c)
		for q := -L - 3; q <= 3; q++ {
			if q < ref.MinQ {
				continue
			}
			for s := 0; s < 2; s++ {
				b := MkBits(s == 1, c, q)
				v := ref.Decode(b)
				d := D(b)
				w.Set1("package Round/Trunc/Ceil/Floor", "", b)
				w.EvalN(4)
				w1, _ := roundWant(v, 0, 1)
				w2, _ := roundWant(v, 0, 2)
				w3, _ := ceilFloorWant(v, 0, true)
				w4, _ := ceilFloorWant(v, 0, false)
				for k, pr := range []struct {
					n string
					g dec.Decimal
					w ref.Val
				}{{"Round(pkg)", dec.Round(d), w1}, {"Trunc(pkg)", dec.Trunc(d), w2}, {"Ceil(pkg)", dec.Ceil(d), w3}, {"Floor(pkg)", dec.Floor(d), w4}} {
					_ = k
					if !Same(B(pr.g), pr.w) {
						w.R.Fail(eng.Case{Op: pr.n, Args: []string{b.Hex()}, Got: V(pr.g).String(), Want: pr.w.String(), Note: "d=" + v.String()})
					}
				}
				w.Cell("package-functions", true)
			}
		}
	})
	r.Seq(func(w *eng.W) {
		for _, b := range specialOperands() {
			v := ref.Decode(b)
			if v.Class == ref.Fin {
				continue
			}
			d := D(b)
			for _, dp := range append([]int{-3, 0, 2}, dpExtremes...) {
				for m := 0; m < 6; m++ {
					w.Eval()
					if B(d.Round(dp, LibModes[m])) != b {
						w.R.Fail(eng.Case{Op: "Round(special)", Args: []string{b.Hex(), itoa(dp)}, Mode: MName(m), Got: B(d.Round(dp, LibModes[m])).Hex(), Want: "unchanged " + b.Hex()})
					}
				}
				if B(d.Ceil(dp)) != b || B(d.Floor(dp)) != b {
					w.R.Fail(eng.Case{Op: "Ceil/Floor(special)", Args: []string{b.Hex(), itoa(dp)}, Got: B(d.Ceil(dp)).Hex() + " " + B(d.Floor(dp)).Hex(), Want: "unchanged " + b.Hex()})
				}
			}
			if B(dec.Round(d)) != b || B(dec.Trunc(d)) != b || B(dec.Ceil(d)) != b || B(dec.Floor(d)) != b {
				w.R.Fail(eng.Case{Op: "package(special)", Args: []string{b.Hex()}, Got: "changed", Want: "unchanged"})
			}
			w.Cell("special-pass-through", true)
		}
	})
	r.Phase("A2 package functions, specials", t0, nil)

	// R: values reached by operation sequences (whatever encoding the library returned), every cutting dp
	rs := reachedAll(r)
	if !r.Thorough() {
		rs = strideBits(rs, 12000)
	}
	reachedPhase(r, "R values reached by operation sequences", rs, func(w *eng.W, b ref.Bits, v ref.Val) {
		L := ref.NumDigits(v.C)
		d := D(b)
		for dp := -(v.Q + L) - 2; dp <= -v.Q+2; dp++ {
			for m := 0; m < 6; m++ {
				checkRound(w, b, v, dp, m)
			}
			checkCeilFloor(w, b, v, dp, true)
			checkCeilFloor(w, b, v, dp, false)
		}
		w1, _ := roundWant(v, 0, 1)
		w2, _ := roundWant(v, 0, 2)
		w3, _ := ceilFloorWant(v, 0, true)
		w4, _ := ceilFloorWant(v, 0, false)
		for _, pr := range []struct {
			n string
			g dec.Decimal
			w ref.Val
		}{{"Round(pkg)", dec.Round(d), w1}, {"Trunc(pkg)", dec.Trunc(d), w2}, {"Ceil(pkg)", dec.Ceil(d), w3}, {"Floor(pkg)", dec.Floor(d), w4}} {
			if !Same(B(pr.g), pr.w) {
				w.R.Fail(eng.Case{Op: pr.n, Args: []string{b.Hex()}, Got: V(pr.g).String(), Want: pr.w.String(), Note: "d=" + v.String()})
			}
		}
		w.EvalN(4)
	})
	for m := 0; m < 6; m++ {
		r.Require("Round/"+ref.ModeNames[m]+"/g5", "Round/"+ref.ModeNames[m]+"/g5+", "Round/"+ref.ModeNames[m]+"/g0+/tiny0", "Round/"+ref.ModeNames[m]+"/g6-9*")
	}
	r.Require("Ceil/pos/inexact*", "Ceil/neg/inexact*", "Floor/pos/inexact*", "Floor/neg/inexact*", "special-pass-through")
}

func c08Vectors(r *eng.Run) {
	for _, dir := range []string{"TestDecimalRound", "TestDecimalCeil", "TestDecimalFloor"} {
		vs := ReadVectors(r, dir)
		if len(vs) == 0 {
			r.SelfFail("no vectors in %s", dir)
			continue
		}
		bad := 0
		for _, v := range vs {
			i := strings.IndexByte(v.LHS, '(')
			j := strings.LastIndexByte(v.LHS, ')')
			if i < 0 || j < 0 {
				continue
			}
			parts := strings.Split(v.LHS[i+1:j], ",")
			if len(parts) != 2 {
				continue
			}
			al, ok := ref.ParseLit(strings.TrimSpace(parts[0]))
			var dp int
			if _, err := fmt.Sscan(strings.TrimSpace(parts[1]), &dp); err != nil || !ok || al.Class != ref.Fin {
				continue
			}
			a := ref.RoundLit(al, ref.NearestEven)
			for m := 0; m < 6; m++ {
				el, ok := ref.ParseLit(v.RHS[m])
				if !ok {
					continue
				}
				want := ref.RoundLit(el, ref.NearestEven)
				var got ref.Val
				switch dir {
				case "TestDecimalRound":
					got, _ = roundWant(a, dp, m)
				case "TestDecimalCeil":
					got, _ = ceilFloorWant(a, dp, true)
				default:
					got, _ = ceilFloorWant(a, dp, false)
				}
				r.Traces.Add(1)
				if !ref.SameValue(got, want) && bad < 5 {
					bad++
					r.SelfFail("model disagrees with repository vector %s/%s:%d %q mode %s: model %s, vector %s", dir, v.File, v.Line, v.LHS, MName(m), got, want)
				}
			}
		}
	}
	_ = big.NewInt
}
