package props

import (
	"bufio"
	"os"
	"path/filepath"
	"strings"

	"verifmc/eng"
)

var vecCodes = map[string]int{"NE": 0, "NA": 1, "Z": 2, "FZ": 3, "NI": 4, "PI": 5}

// Vector is one line of the repository's testdata: lhs text and the expected text per mode.
type Vector struct {
	File string
	Line int
	LHS  string
	RHS  [6]string
}

// ReadVectors parses /repo/testdata/<dir>/*.txt ("lhs = r[;CODES:alt]...").
func ReadVectors(r *eng.Run, dir string) []Vector {
	files, _ := filepath.Glob(filepath.Join(RepoDir(), "testdata", dir, "*.txt"))
	var out []Vector
	for _, f := range files {
		fh, err := os.Open(f)
		if err != nil {
			continue
		}
		sc := bufio.NewScanner(fh)
		sc.Buffer(make([]byte, 1<<20), 1<<20)
		n := 0
		for sc.Scan() {
			n++
			ln := strings.TrimSpace(sc.Text())
			if ln == "" {
				continue
			}
			i := strings.LastIndex(ln, " = ")
			if i < 0 {
				continue
			}
			v := Vector{File: filepath.Base(f), Line: n, LHS: ln[:i]}
			parts := strings.Split(ln[i+3:], ";")
			for m := range v.RHS {
				v.RHS[m] = parts[0]
			}
			for _, p := range parts[1:] {
				j := strings.IndexByte(p, ':')
				if j < 0 {
					continue
				}
				for _, c := range strings.Split(p[:j], ",") {
					if m, ok := vecCodes[c]; ok {
						v.RHS[m] = p[j+1:]
					}
				}
			}
			out = append(out, v)
		}
		fh.Close()
	}
	return out
}
