package props

import (
	"errors"
	"fmt"
	"math/big"
	"strconv"
	"strings"
	"time"

	dec "github.com/woodsbury/decimal128"

	"verifmc/eng"
	"verifmc/ref"
)

// litClass classifies a string against the documented syntax:
// 1 = well-formed numeral or unsigned/signed Inf/Infinity or unsigned NaN; 0 = ill-formed;
// -1 = not pinned by the documentation (signed NaN, '_' inside the exponent digits): not judged.
func litClass(s string) (int, ref.Lit) {
	l, ok := ref.ParseLit(s)
	if !ok {
		return 0, l
	}
	if l.Class == ref.NaN && (s[0] == '+' || s[0] == '-') {
		return -1, l
	}
	if l.Class == ref.Fin {
		if i := strings.IndexAny(s, "eE"); i >= 0 && strings.Contains(s[i:], "_") {
			return -1, l
		}
	}
	return 1, l
}

func litWant(l ref.Lit, drm int) (ref.Val, bool) {
	v := ref.RoundLit(l, Modes[drm])
	return v, l.Class == ref.Fin && v.Class == ref.Inf
}

func short(s string) string {
	if len(s) <= 80 {
		return s
	}
	return fmt.Sprintf("%s…(%d bytes)…%s", s[:40], len(s), s[len(s)-30:])
}

// checkParse runs Parse, UnmarshalText and MustParse on s and compares with the model.
// gen is a recipe that regenerates s for replay when s is long.
func checkParse(w *eng.W, s string, drm int, gen string) {
	cls, l := litClass(s)
	w.SetS("Parse", "", short(s))
	d, err := dec.Parse(s)
	var d2 dec.Decimal
	d2 = dec.New(7, 3)
	err2 := d2.UnmarshalText([]byte(s))
	var d3 dec.Decimal
	panicked := false
	func() {
		defer func() {
			if recover() != nil {
				panicked = true
			}
		}()
		d3 = dec.MustParse(s)
	}()
	w.EvalN(3)
	arg := s
	if len(s) > 200 {
		arg = "gen:" + gen
	}
	fail := func(op, got, want string) {
		w.R.Fail(eng.Case{Op: op, Args: []string{arg}, DRM: MName(drm), Got: got, Want: want})
	}
	if cls == -1 {
		w.Cell("Parse/unspecified-syntax", false)
		return
	}
	if cls == 0 {
		w.Cell("Parse/ill-formed", true)
		if err == nil {
			fail("Parse", "accepted as "+V(d).String(), "error matching strconv.ErrSyntax")
		} else if !errors.Is(err, strconv.ErrSyntax) {
			fail("Parse", "error "+err.Error()+" (not ErrSyntax)", "error matching strconv.ErrSyntax")
		}
		if err2 == nil {
			fail("UnmarshalText", "accepted as "+V(d2).String(), "error matching strconv.ErrSyntax")
		} else if !errors.Is(err2, strconv.ErrSyntax) {
			fail("UnmarshalText", "error "+err2.Error(), "error matching strconv.ErrSyntax")
		}
		if !panicked {
			fail("MustParse", "returned "+V(d3).String(), "panic")
		}
		return
	}
	want, rng := litWant(l, drm)
	cell := "Parse/value"
	switch {
	case l.Class != ref.Fin:
		cell = "Parse/special-name"
	case rng:
		cell = "Parse/overflow"
	case want.IsZero() && l.C.Sign() != 0:
		cell = "Parse/underflow-to-zero"
	case len(s) > 40:
		cell = "Parse/long-literal"
	}
	w.Cell(cell, true)
	judge := func(op string, g dec.Decimal, e error) {
		gv := V(g)
		if rng {
			// UnmarshalText reports the error and may leave the receiver alone (usual Unmarshal convention)
			keep := op == "UnmarshalText" && B(g) == B(dec.New(7, 3))
			if e == nil || !errors.Is(e, strconv.ErrRange) || !(keep || gv.Class == ref.Inf && gv.Neg == want.Neg) {
				fail(op, fmt.Sprint(gv, " err=", e), want.String()+" with an error matching strconv.ErrRange")
			}
			return
		}
		if e != nil {
			fail(op, "error "+e.Error(), want.String())
			return
		}
		ok := ref.SameValue(gv, want)
		if want.Class == ref.NaN {
			ok = gv.Class == ref.NaN
		}
		if !ok {
			fail(op, gv.String(), want.String())
		}
	}
	judge("Parse", d, err)
	judge("UnmarshalText", d2, err2)
	if panicked {
		if !rng {
			fail("MustParse", "panic", want.String())
		}
	} else if !rng {
		judge("MustParse", d3, nil)
	}
}

// genLit regenerates a literal from a recipe "sign|zeros|pattern|len|dot|exp".
func genLit(recipe string) string {
	p := strings.Split(recipe, "|")
	if len(p) != 6 {
		return ""
	}
	var nz, L, dot int
	fmt.Sscan(p[1], &nz)
	fmt.Sscan(p[3], &L)
	fmt.Sscan(p[4], &dot)
	digs := strings.Repeat("0", nz) + digitPattern(p[2], L)
	if dot >= 0 && dot <= len(digs) {
		digs = digs[:dot] + "." + digs[dot:]
	}
	return p[0] + digs + p[5]
}

func digitPattern(kind string, L int) string {
	switch kind {
	case "P":
		return "1" + strings.Repeat("0", L-1)
	case "N":
		return strings.Repeat("9", L)
	case "P1":
		if L == 1 {
			return "1"
		}
		return "1" + strings.Repeat("0", L-2) + "1"
	case "H":
		return "5" + strings.Repeat("0", L-1)
	case "H-":
		return "4" + strings.Repeat("9", L-1)
	case "G":
		return strings.Repeat(gen1, L/len(gen1)+1)[:L]
	case "Z1": // zeros then a final 1 (all leading zeros)
		return strings.Repeat("0", L-1) + "1"
	}
	// tie patterns: 34- or 35-digit K followed by a tail
	if strings.HasPrefix(kind, "T:") {
		q := strings.Split(kind[2:], ":")
		K, tail := q[0], q[1]
		s := K + tail
		if len(s) < L {
			s += strings.Repeat("0", L-len(s))
		}
		return s
	}
	return "1"
}

var expFields = []string{"", "e0", "e1", "e-1", "E+17", "e-17", "e6111", "e-6111", "e6144", "e6145", "e6146", "e-6144", "e-6145", "e6176", "e-6176", "e-6177", "e6177",
	"e6189", "e-6189", "e6190", "e-6190", "e6215", "e-6215", "e-6216", "e99999", "e-99999", "e00000000000000000000123", "e-000000000000000000006200", "e+99999999999999999999", "e-99999999999999999999", "e32767", "e32768", "e-32768", "e65536", "e-65537"}

func init() {
	Replayers["Parse"] = func(c eng.Case) (string, string, error) {
		s := c.Args[0]
		if strings.HasPrefix(s, "gen:") {
			s = genLit(s[4:])
		}
		drm := ModeIndex(c.DRM)
		if drm < 0 {
			drm = 0
		}
		saved := dec.DefaultRoundingMode
		dec.DefaultRoundingMode = LibModes[drm]
		defer func() { dec.DefaultRoundingMode = saved }()
		cls, l := litClass(s)
		d, err := dec.Parse(s)
		got := fmt.Sprint(V(d), " err=", err)
		switch cls {
		case 0:
			if err != nil && errors.Is(err, strconv.ErrSyntax) {
				return "rejected", "rejected", nil
			}
			return got, "error matching strconv.ErrSyntax", nil
		case 1:
			want, rng := litWant(l, drm)
			if rng && err != nil && errors.Is(err, strconv.ErrRange) && V(d).Class == ref.Inf {
				return "ok", "ok", nil
			}
			if !rng && err == nil && (ref.SameValue(V(d), want) || want.Class == ref.NaN && V(d).Class == ref.NaN) {
				return "ok", "ok", nil
			}
			return got, want.String(), nil
		}
		return "unspecified", "unspecified", nil
	}
	Replayers["UnmarshalText"] = Replayers["Parse"]
	Replayers["MustParse"] = Replayers["Parse"]
	Checks["C05"] = Check{C05, "model_checking"}
}

func C05(r *eng.Run) {
	r.Rule = "explicit-state conformance of the parser with a reference automaton for the documented syntax: every string up to length N over a 15-symbol alphabet {0,1,5,9,.,_,e,E,+,-,n,a,i,f,x} through Parse, UnmarshalText and MustParse " +
		"(accept/reject must equal automaton membership, accepted values must equal the exact literal rounded by DefaultRoundingMode, errors must match strconv.ErrSyntax/ErrRange); " +
		"plus structured literals: digit strings of every length 1..45 and {100,1000,32766..32769,65535..65537,70000} in 7 patterns, 34/35-digit tie patterns, every sticky-tail pattern after 34/35-digit prefixes, leading-digit prefixes at the accumulator-switch lengths, '_' inserted at every position of 1..45-digit literals, every dot position (sampled positions for long ones), leading-zero runs, " +
		"exponent fields across every threshold, 3 signs, 6 DefaultRoundingMode values; special names in every letter case; every byte of short well-formed literals replaced by each of the 256 byte values and every single-bit flip of long ones; literals of up to 400 000 (thorough: 1.2 million) digits whose exponent field is compensated by the position of the point; fmt.Sscan/Sscanf on valid numerals. " +
		"states = distinct (automaton state, parser verdict) pairs observed, transitions = strings judged; non-trivial = ill-formed, rounded, over/underflowing or long literals."
	r.Assumptions = []string{"binary codec is the identity on bits (checked at start; decided by C12)",
		"strings whose status the documentation does not pin (signed NaN, '_' inside exponent digits) are not judged", "the reference literal evaluator is bound to the repository's vectors by C01/C02 (it reads every operand and expected value there)"}
	if !CodecSanity(r) {
		return
	}
	saved := dec.DefaultRoundingMode
	defer func() { dec.DefaultRoundingMode = saved }()

	// M1: all strings up to length N
	t0 := time.Now()
	alpha := []byte("0159._eE+-naifx")
	N := 5
	if r.Thorough() {
		N = 6
	}
	r.Bounds["alphabet"] = string(alpha)
	r.Bounds["max_string_length"] = N
	first := len(alpha) * len(alpha)
	r.Par(first+len(alpha)+1, func(w *eng.W, k int) {
		var prefix []byte
		switch {
		case k == first+len(alpha):
			checkParse(w, "", 0, "")
			return
		case k >= first:
			checkParse(w, string(alpha[k-first]), 0, "")
			return
		default:
			prefix = []byte{alpha[k/len(alpha)], alpha[k%len(alpha)]}
		}
		buf := make([]byte, 0, N)
		var rec func(cur []byte)
		rec = func(cur []byte) {
			checkParse(w, string(cur), 0, "")
			if len(cur) == N {
				return
			}
			for _, c := range alpha {
				rec(append(cur, c))
			}
		}
		rec(append(buf, prefix...))
	})
	m1 := r.Evals() / 3
	r.States.Add(m1) // nodes of the prefix tree of input strings: each is one run of the parser from its initial state, judged against the reference automaton
	r.Transitions.Add(m1)
	r.Phase("M1 all strings", t0, map[string]any{"strings": m1})

	// special names in every case
	t0 = time.Now()
	r.Seq(func(w *eng.W) {
		for _, name := range []string{"nan", "inf", "infinity"} {
			for mask := 0; mask < 1<<len(name); mask++ {
				b := []byte(name)
				for i := range b {
					if mask>>i&1 == 1 {
						b[i] -= 32
					}
				}
				for _, sg := range []string{"", "+", "-"} {
					checkParse(w, sg+string(b), 0, "")
				}
			}
		}
		for _, s := range []string{"infinit", "infinityy", "in", "na", "nann", "i", "nan0", "0nan", "inf.", "1inf", "-", "+", "+-1", "--1", "1-", "1e", "1e+", "e1", "1.2.3", "1e1.5", "1e1e1", " 1", "1 ", "１", "1\x00", "0x10", "1,5", "٣"} {
			checkParse(w, s, 0, "")
		}
	})
	r.Phase("special names", t0, nil)

	// byte neighbourhood of well-formed literals: every byte of every base literal replaced by each of the
	// 256 byte values (short bases) or by its 8 single-bit flips (long bases). A classification by mask or
	// range test that is off in one bit (bit 7, bit 5, '/' and ':' next to the digits) shows here.
	t0 = time.Now()
	var nbBases []string
	for _, name := range []string{"nan", "NaN", "NAN", "inf", "Inf", "INF", "iNf", "infinity", "Infinity", "INFINITY", "inFiniTy"} {
		for _, sg := range []string{"", "+", "-"} {
			nbBases = append(nbBases, sg+name)
		}
	}
	nbBases = append(nbBases, "0", "7", "10", "-1.5", "+2e3", "1e-2", "1_0", "0.5E+10", "9.9e9")
	longBases := []string{"12345678901234567890123.4567e-100", "-1_000_000.000_001E+6000", "98765432109876543210987654321098765432109876543210", "0.000000000000000000000000000000000000000000001234567890123456789012345678901234567890e-6100", "+1234567890_1234567890_1234567890_1234567890.5e1"}
	r.Par(len(nbBases)+len(longBases), func(w *eng.W, i int) {
		if i < len(nbBases) {
			base := nbBases[i]
			for p := 0; p < len(base); p++ {
				for c := 0; c < 256; c++ {
					b := []byte(base)
					b[p] = byte(c)
					checkParse(w, string(b), 0, "")
				}
			}
		} else {
			base := longBases[i-len(nbBases)]
			for p := 0; p < len(base); p++ {
				for bit := 0; bit < 8; bit++ {
					b := []byte(base)
					b[p] ^= 1 << bit
					checkParse(w, string(b), 0, "")
				}
			}
		}
		w.Cell("Parse/byte-neighbourhood", true)
	})
	r.Bounds["byte_neighbourhood_bases"] = len(nbBases) + len(longBases)
	r.Phase("byte neighbourhood of well-formed literals", t0, nil)

	// long literals whose written exponent is compensated by the position of the decimal point: the value is
	// moderate although the exponent field alone is far outside every range (up to +-1.2 million), so the
	// exponent accumulator, its saturation and the fraction counter must all stay exact together
	t0 = time.Now()
	compN := []int{50, 1000, 6200, 32767, 32768, 40000, 65536, 99999, 100000, 327679, 327680, 400000}
	if r.Thorough() {
		compN = append(compN, 1000000, 1200000)
	}
	compS := []int{0, 7, 40, 6111, 6145, 6150, -6170, -6178, -6250}
	r.Par(len(compN)*len(compS), func(w *eng.W, k int) {
		N, s := compN[k/len(compS)], compS[k%len(compS)]
		for _, sg := range []string{"", "-"} {
			for _, kind := range []string{"G", "H"} {
				// 0.<N zeros><5 digits> e+(N+s)
				recipe := fmt.Sprintf("%s|%d|%s|%d|%d|e%d", sg, N+1, kind, 5, 1, N+s)
				checkParse(w, genLit(recipe), 0, recipe)
				recipe = fmt.Sprintf("%s|%d|%s|%d|%d|E+%d", sg, N+1, kind, 36, 1, N+s)
				checkParse(w, genLit(recipe), 0, recipe)
			}
			// 1<N zeros> e-(N+s), and with a trailing fraction
			recipe := fmt.Sprintf("%s|0|P|%d|-1|e%d", sg, N+1, -(N + s))
			checkParse(w, genLit(recipe), 0, recipe)
			recipe = fmt.Sprintf("%s|0|P1|%d|%d|e%d", sg, N+3, N+1, -(N + s))
			checkParse(w, genLit(recipe), 0, recipe)
		}
		w.Cell("Parse/compensated-exponent", true)
	})
	r.Bounds["compensated_exponent_lengths"] = len(compN)
	r.Phase("compensated exponents", t0, nil)

	// A1: structured literals under every DefaultRoundingMode
	t0 = time.Now()
	type job struct {
		kind string
		L    int
	}
	var jobs []job
	kinds := []string{"P", "N", "P1", "H", "H-", "G", "Z1"}
	for L := 1; L <= 45; L++ {
		for _, k := range kinds {
			jobs = append(jobs, job{k, L})
		}
	}
	longLens := []int{100, 1000, 32766, 32767, 32768, 32769, 65535, 65536, 65537, 70000}
	if !r.Thorough() {
		longLens = []int{100, 1000, 32767, 32768, 32769, 65536, 70000}
	}
	for _, L := range longLens {
		for _, k := range kinds {
			jobs = append(jobs, job{k, L})
		}
	}
	// tie patterns at the 34/35-digit boundary
	for _, K := range []string{gen1[:34], "9999999999999999999999999999999999", "1000000000000000000000000000000000", "1298074214633706907132624082305023", "12980742146337069071326240823050239", "12980742146337069071326240823050238", "1000000000000000000000000000000001", gen9[:34], "2" + gen1[:33]} {
		for _, tail := range []string{"5", "50", "500000000001", "49", "4999999999999", "51", "05", "95", "5000000000000000000000000000000000000000000001", "9"} {
			jobs = append(jobs, job{"T:" + K + ":" + tail, len(K) + len(tail)})
		}
	}
	firstTailJob := len(jobs)
	// every sticky-tail pattern after 34- and 35-digit prefixes (which reduction arm runs depends on the total length)
	for _, K := range []string{gen1[:34], "2000000000000000000000000000000000", "1298074214633706907132624082305022", "12980742146337069071326240823050238", "9999999999999999999999999999999998", "3000000000000000000000000000000001"} {
		for _, tl := range stickyTails(5) {
			ts := tl.String()
			for len(ts) < 1 {
				ts = "0" + ts
			}
			for pad := len(ts); pad <= 5; pad++ {
				tt := strings.Repeat("0", pad-len(ts)) + ts
				if pad > len(ts) && pad != 5 {
					continue
				}
				jobs = append(jobs, job{"T:" + K + ":" + tt, len(K) + len(tt)})
			}
		}
	}
	_ = len(jobs)
	// leading-digit prefixes (binary accumulator limits 2^64/10^j, 2^128/10^j and every 2- or 3-digit lead) at the lengths where the accumulators switch
	var leads []string
	for _, t := range []string{"1844", "1845", "18446", "18447", "185", "3402", "3403", "34028", "34029", "341", "345", "35", "3322", "3323", "333", "1297", "1298", "1299", "13", "2551", "2552", "256", "26", "0272", "028"} {
		leads = append(leads, t)
	}
	nl := 2
	if r.Thorough() {
		nl = 3
	}
	for _, z := range LeadSweep(nl) {
		leads = append(leads, z.String())
	}
	leads = append(leads, LimitPrefixes()...)
	for _, ld := range leads {
		for _, L := range []int{19, 20, 21, 37, 38, 39, 40, 41, 45} {
			if L <= len(ld) {
				continue
			}
			jobs = append(jobs, job{"T:" + ld + ":", L}, job{"T:" + ld + ":" + strings.Repeat("0", L-len(ld)-1) + "1", L})
		}
	}
	r.Bounds["lead_prefixes"] = len(leads)
	r.Bounds["digit_string_jobs"] = len(jobs)
	r.Bounds["exponent_fields"] = len(expFields)
	for drm := 0; drm < 6; drm++ {
		dec.DefaultRoundingMode = LibModes[drm]
		r.Par(len(jobs), func(w *eng.W, k int) {
			j := jobs[k]
			var dots []int
			long := j.L > 60
			if !long {
				for p := -1; p <= j.L; p++ {
					dots = append(dots, p)
				}
			} else {
				dots = []int{-1, 0, 1, j.L / 2, j.L - 1, j.L}
			}
			zeros := []int{0, 1, 20, 40}
			exps := expFields
			leadJob := strings.HasPrefix(j.kind, "T:") && k >= firstTailJob
			if leadJob {
				dots = []int{-1, 0, 1, j.L - 1, j.L}
			}
			signs := []string{"", "-", "+"}
			if long {
				zeros = []int{0, 3}
				signs = []string{"", "-"}
				if drm > 0 {
					exps = []string{"", "e6144", "e-6177", "e-32768"}
				}
				if j.L >= 30000 {
					zeros = []int{0}
				}
			}
			if drm > 0 && !long {
				zeros = []int{0, 20}
			}
			if leadJob {
				zeros = []int{0}
				exps = []string{"", "e-30", "e6100", "e-6200"}
				signs = []string{"", "-"}
				if drm > 0 && drm != 3 {
					return
				}
			}
			for _, nz := range zeros {
				for _, dot := range dots {
					dp := dot
					if dot >= 0 {
						dp = dot + nz
					}
					for _, ex := range exps {
						for _, sg := range signs {
							recipe := fmt.Sprintf("%s|%d|%s|%d|%d|%s", sg, nz, j.kind, j.L, dp, ex)
							checkParse(w, genLit(recipe), drm, recipe)
						}
					}
				}
			}
		})
		// very long leading-zero runs
		r.Par(6, func(w *eng.W, k int) {
			nz := []int{1000, 32767, 32768, 40000, 65536, 70000}[k]
			for _, dot := range []int{-1, 0, 1, nz, nz + 1} {
				for _, ex := range []string{"", "e5", "e-6170", "e6140"} {
					recipe := fmt.Sprintf("%s|%d|%s|%d|%d|%s", "", nz, "G", 36, dot, ex)
					checkParse(w, genLit(recipe), drm, recipe)
				}
			}
		})
	}
	dec.DefaultRoundingMode = saved
	r.Transitions.Add(r.Evals()/3 - m1)
	r.Phase("A1 structured literals", t0, nil)

	// separator placement: '_' inserted at every position of structured literals (valid only between two digits of the mantissa)
	t0 = time.Now()
	var sepBase []string
	for _, L := range []int{1, 2, 3, 18, 19, 20, 21, 22, 37, 38, 39, 40, 41, 45} {
		d := digitPattern("G", L)
		sepBase = append(sepBase, d, d+".5", "0."+d, d+"e5", d+".25e-3", d[:(L+1)/2]+"."+d[(L+1)/2:]+"E+7", "-"+d)
	}
	r.Bounds["separator_base_literals"] = len(sepBase)
	r.Par(len(sepBase), func(w *eng.W, k int) {
		s := sepBase[k]
		for i := 0; i <= len(s); i++ {
			checkParse(w, s[:i]+"_"+s[i:], 0, "")
			if i < len(s) {
				checkParse(w, s[:i]+"__"+s[i:], 0, "")
				for j := i + 2; j <= len(s); j += 7 {
					checkParse(w, s[:i]+"_"+s[i:j]+"_"+s[j:], 0, "")
				}
			}
		}
		w.Cell("Parse/separator-placement", true)
	})
	r.Phase("separator placement", t0, nil)

	// Scan
	t0 = time.Now()
	r.Par(len(jobs), func(w *eng.W, k int) {
		j := jobs[k]
		if j.L > 60 {
			return
		}
		for _, dot := range []int{-1, 0, 1, j.L / 2, j.L} {
			if dot > j.L {
				continue
			}
			for _, ex := range []string{"", "e5", "E-7", "e+6100", "e-6180"} {
				for _, sg := range []string{"", "-", "+"} {
					s := genLit(fmt.Sprintf("%s|0|%s|%d|%d|%s", sg, j.kind, j.L, dot, ex))
					cls, l := litClass(s)
					if cls != 1 {
						continue
					}
					want, rng := litWant(l, 0)
					if rng {
						continue
					}
					for vi, verb := range []string{"", "%v", "%e", "%g", "%f"} {
						w.SetS("Scan", "", s)
						var d dec.Decimal
						var tail string
						var err error
						var n int
						if verb == "" {
							n, err = fmt.Sscan(s+" tail", &d, &tail)
						} else {
							n, err = fmt.Sscanf(s+" tail", verb+" %s", &d, &tail)
						}
						w.Eval()
						if err != nil || n != 2 || tail != "tail" || !ref.SameValue(V(d), want) {
							w.R.Fail(eng.Case{Op: "Scan", Args: []string{s, verb}, Got: fmt.Sprint(V(d), " n=", n, " tail=", tail, " err=", err), Want: want.String() + " and the following token left intact"})
						}
						_ = vi
					}
					w.Cell("Scan/numeral", true)
				}
			}
		}
	})
	r.Seq(func(w *eng.W) {
		for _, s := range []string{"nan", "NaN", "NAN", "inf", "Inf", "+Inf", "-inf", "-INF", "+inf"} {
			var d dec.Decimal
			var tail string
			n, err := fmt.Sscan(s+" tail", &d, &tail)
			w.Eval()
			l, _ := ref.ParseLit(s)
			gv := V(d)
			ok := err == nil && n == 2 && tail == "tail" && gv.Class == l.Class && (l.Class == ref.NaN || gv.Neg == l.Neg)
			if !ok {
				w.R.Fail(eng.Case{Op: "Scan", Args: []string{s, ""}, Got: fmt.Sprint(gv, " n=", n, " tail=", tail, " err=", err), Want: s})
			}
			w.Cell("Scan/special", true)
		}
	})
	r.Traces.Add(r.Evals())
	r.Phase("Scan", t0, nil)
	r.Require("Parse/ill-formed", "Parse/value", "Parse/overflow", "Parse/underflow-to-zero", "Parse/long-literal", "Parse/special-name", "Scan/numeral", "Scan/special", "Parse/byte-neighbourhood", "Parse/compensated-exponent")
	_ = big.NewInt
}
