package props

import (
	"fmt"
	"math/big"
	"strconv"
	"strings"
	"time"

	dec "github.com/woodsbury/decimal128"

	"verifmc/eng"
	"verifmc/ref"
	"verifmc/ref/hp"
)

// strip returns the coefficient without trailing zeros and the matching exponent.
func strip(v ref.Val) (*big.Int, int) {
	c := new(big.Int).Set(v.C)
	q := v.Q
	if c.Sign() == 0 {
		return c, 0
	}
	ten := big.NewInt(10)
	var r big.Int
	for {
		t := new(big.Int)
		t.QuoRem(c, ten, &r)
		if r.Sign() != 0 {
			return c, q
		}
		c, q = t, q+1
	}
}

func isIntegerVal(v ref.Val) (bool, *big.Int) {
	c, q := strip(v)
	if q < 0 {
		return false, nil
	}
	if q > 40 {
		// huge even integer; parity even, magnitude irrelevant beyond this
		return true, new(big.Int).Mul(c, ref.Pow10(40))
	}
	return true, new(big.Int).Mul(c, ref.Pow10(q))
}

type powWant struct {
	kind   string // "exact", "nan", "inf", "zero", "approx"
	val    ref.Val
	neg    bool
	t1, t2 *big.Float // |true result| at two precisions
	lnx    *big.Float
}

// powSpec classifies Pow(x,y) for finite non-zero x and finite y.
func powSpec(x, y ref.Val, m int) powWant {
	oneV := ref.Val{Class: ref.Fin, C: big.NewInt(1), Q: 0}
	if y.C.Sign() == 0 {
		return powWant{kind: "exact", val: oneV}
	}
	yc, yq := strip(y)
	yIsOne := yc.Cmp(big.NewInt(1)) == 0 && yq == 0
	if yIsOne && !y.Neg {
		return powWant{kind: "exact", val: x}
	}
	if valIsOne(x) {
		return powWant{kind: "exact", val: oneV}
	}
	if yIsOne && y.Neg {
		v, _ := ref.Quo(oneV, x, Modes[m])
		return powWant{kind: "exact", val: v}
	}
	yInt, yAbs := isIntegerVal(y)
	neg := false
	if x.Neg {
		if !yInt {
			return powWant{kind: "nan"}
		}
		neg = yAbs.Bit(0) == 1
	}
	xc, xq := strip(x)
	if xc.Cmp(big.NewInt(1)) == 0 {
		// power of ten
		if yInt && !y.Neg {
			// 10^(xq*y)
			if xq == 0 {
				v, _ := ref.Fit(neg, big.NewInt(1), 0)
				return powWant{kind: "exact", val: v}
			}
			if yAbs.BitLen() > 40 {
				if xq > 0 {
					return powWant{kind: "inf", neg: neg}
				}
				return powWant{kind: "zero", neg: neg}
			}
			e := new(big.Int).Mul(big.NewInt(int64(xq)), yAbs)
			if e.Cmp(big.NewInt(int64(ref.MaxQ+34))) > 0 {
				return powWant{kind: "inf", neg: neg}
			}
			if e.Cmp(big.NewInt(int64(ref.MinQ))) < 0 {
				return powWant{kind: "zero", neg: neg}
			}
			v, _ := ref.Fit(neg, big.NewInt(1), int(e.Int64()))
			return powWant{kind: "exact", val: v}
		}
		if yc.Cmp(big.NewInt(5)) == 0 && yq == -1 && xq%2 == 0 && !x.Neg {
			e := xq / 2
			if y.Neg {
				e = -e
			}
			v, _ := ref.Fit(false, big.NewInt(1), e)
			return powWant{kind: "exact", val: v}
		}
	}
	// general: |x|^y = exp(y ln|x|)
	w := powWant{kind: "approx", neg: neg}
	for i, p := range []uint{hpP1, hpP2} {
		c := hp.Get(p)
		ln := c.LnDec(x.C, x.Q)
		yf := c.FromDec(y.Neg, y.C, y.Q)
		prod := new(big.Float).SetPrec(p+64).Mul(yf, ln)
		if i == 1 {
			w.lnx = ln
		}
		ap := new(big.Float).Abs(prod)
		if ap.Cmp(big.NewFloat(40000)) > 0 {
			if prod.Sign() > 0 {
				return powWant{kind: "inf", neg: neg}
			}
			return powWant{kind: "zero", neg: neg}
		}
		t := c.Exp(prod)
		if i == 0 {
			w.t1 = t
		} else {
			w.t2 = t
		}
	}
	return w
}

var powUndecided int64

// judgePow returns "" when got is acceptable.
func judgePow(x, y, got ref.Val, m int) (verdict, want, cell string) {
	sp := powSpec(x, y, m)
	switch sp.kind {
	case "exact":
		if !ref.SameValue(got, sp.val) {
			return "shortcut case must be exact", sp.val.String(), "shortcut-exact"
		}
		return "", "", "shortcut-exact"
	case "nan":
		if got.Class != ref.NaN {
			return "negative base with non-integer exponent", "NaN", "nan"
		}
		return "", "", "nan"
	case "inf", "zero":
		cell = "beyond-range-" + sp.kind
		// Inf/zero, or the mode-rounded extreme of the range, with the right sign
		if got.Class == ref.NaN || (got.Neg != sp.neg) {
			return "result beyond the range", sp.kind + " with sign (-1)^y", cell
		}
		if sp.kind == "inf" {
			if got.Class == ref.Inf || ref.CmpMag(got, maxFinite) == 0 {
				return "", "", cell
			}
			return "exact power lies beyond the largest Decimal", "Inf", cell
		}
		if got.Class == ref.Fin && (got.C.Sign() == 0 || ref.CmpMag(got, ref.Val{Class: ref.Fin, C: big.NewInt(1), Q: ref.MinQ}) == 0) {
			return "", "", cell
		}
		return "exact power lies below the smallest Decimal", "zero", cell
	}
	if got.Class == ref.NaN {
		return "NaN from finite operands", sp.t2.Text('e', 40), "approx"
	}
	rad := new(big.Float).SetPrec(700).Sub(sp.t1, sp.t2)
	rad.Abs(rad).Mul(rad, big.NewFloat(2))
	eps := new(big.Float).SetPrec(700).Set(sp.t2)
	eps.SetMantExp(eps, -280)
	rad.Add(rad, eps)
	u, q := ulpAt(sp.t2)
	// tolerance = u + |t| |y| (4e-37 |ln|x|| + 1e-55)
	tol := new(big.Float).SetPrec(700).Abs(sp.lnx)
	tol.Mul(tol, new(big.Float).SetPrec(700).Quo(big.NewFloat(4), new(big.Float).SetInt(ref.Pow10(37))))
	tol.Add(tol, new(big.Float).SetPrec(700).Quo(big.NewFloat(1), new(big.Float).SetInt(ref.Pow10(55))))
	tol.Mul(tol, new(big.Float).Abs(valF(y)))
	tol.Mul(tol, sp.t2)
	tol.Add(tol, u)
	cell = "approx"
	switch {
	case q == ref.MinQ:
		cell = "approx/subnormal"
	case sp.t2.Cmp(maxFiniteF) > 0:
		cell = "approx/above-max"
	}
	if got.Class == ref.Inf {
		lim := new(big.Float).SetPrec(700).Add(sp.t2, tol)
		lim.Add(lim, rad)
		if got.Neg != sp.neg || lim.Cmp(maxFiniteF) <= 0 {
			return "infinite although the exact power is representable", sp.t2.Text('e', 40), cell
		}
		return "", "", cell
	}
	if got.C.Sign() != 0 && got.Neg != sp.neg {
		return "wrong sign", "sign (-1)^y", cell
	}
	if sp.t2.Cmp(maxFiniteF) > 0 {
		lo := new(big.Float).SetPrec(700).Sub(sp.t2, rad)
		lo.Sub(lo, tol)
		if lo.Cmp(maxFiniteF) > 0 {
			return "finite although the exact power exceeds the largest Decimal", "Inf", cell
		}
	}
	g := valF(got)
	g.Abs(g)
	err := new(big.Float).SetPrec(700).Sub(g, sp.t2)
	err.Abs(err)
	hi := new(big.Float).SetPrec(700).Add(err, rad)
	if hi.Cmp(tol) <= 0 {
		return "", "", cell
	}
	lo := new(big.Float).SetPrec(700).Sub(err, rad)
	if lo.Cmp(tol) > 0 {
		return fmt.Sprintf("error %s ulp, tolerance %s ulp (spacing 1e%d)", new(big.Float).Quo(err, u).Text('g', 6), new(big.Float).Quo(tol, u).Text('g', 6), q), sp.t2.Text('e', 40), cell
	}
	powUndecided++
	return "", "", "undecided"
}

func checkPow(w *eng.W, xb, yb ref.Bits) {
	x, y := ref.Decode(xb), ref.Decode(yb)
	if x.Class != ref.Fin || y.Class != ref.Fin || x.C.Sign() == 0 {
		return
	}
	for m := 0; m < 6; m++ {
		w.Set2("PowWithMode", ref.ModeNames[m], xb, yb)
		got := V(D(xb).PowWithMode(D(yb), LibModes[m]))
		w.Eval()
		verdict, want, cell := judgePow(x, y, got, m)
		w.Cell("Pow/"+cell, cell != "approx")
		if verdict != "" {
			w.R.Fail(eng.Case{Op: "PowWithMode", Args: []string{xb.Hex(), yb.Hex()}, Mode: MName(m), Got: got.String(), Want: want, Note: verdict + fmt.Sprintf("; x=%s y=%s", x, y)})
		}
	}
}

func init() {
	Replayers["PowWithMode"] = func(c eng.Case) (string, string, error) {
		xb, e1 := ref.ParseHex(c.Args[0])
		yb, e2 := ref.ParseHex(c.Args[1])
		m := ModeIndex(c.Mode)
		if e1 != nil || e2 != nil || m < 0 {
			return "", "", fmt.Errorf("bad case")
		}
		got := V(D(xb).PowWithMode(D(yb), LibModes[m]))
		verdict, want, _ := judgePow(ref.Decode(xb), ref.Decode(yb), got, m)
		if verdict == "" {
			return "ok", "ok", nil
		}
		return got.String(), want + " (" + verdict + ")", nil
	}
	Checks["C18"] = Check{C18, "exploration"}
}

func C18(r *eng.Run) {
	r.Rule = "shortcut ladder: y in {0, +-1, +-0.5 in every cohort, non-negative integers 0..40, 10^j, odd/even/huge integers, non-integers} x x in {powers of ten for every k, coefficient shapes, values of both signs}: exact results demanded (1, x, the mode-rounded reciprocal, exact powers of ten, Inf/zero beyond the range, NaN for negative base with non-integer exponent, sign (-1)^y); " +
		"general path: bases near 1 (1+-j*10^-k, k=1..34), every two-digit leading pair, shapes, bases near powers of ten x exponents {integers, half-integers, 34-digit fractions, huge, tiny, both signs} and exponents chosen so the exact power lands at the overflow/underflow thresholds +- a few ulps; bases at both ends and in the middle of every slot of the two-digit logarithm table (finer inside the slots 10 and 95..99) at several magnitudes x exponents that are fixed fractions of the threshold exponent (the amplified logarithm error is largest there); all 6 modes; " +
		"oracle: exp(y ln|x|) on big.Float at two precisions, tolerance = one ulp at the true result + |t||y|(4e-37|ln|x|| + 1e-55), verdicts only when they hold across the enclosure; Pow == PowWithMode under every DefaultRoundingMode. Non-trivial = shortcuts, range ends, NaN/sign cases."
	r.Assumptions = []string{"binary codec is the identity on bits (checked at start; decided by C12)", "beyond the range both the stated Inf/zero and the mode-rounded extreme (largest finite / smallest subnormal) are accepted",
		"oracle bound to the repository's Pow vectors (simple.txt) on every run"}
	if !CodecSanity(r) {
		return
	}
	t0 := time.Now()
	c18Vectors(r)
	r.Phase("oracle vs repository vectors", t0, nil)

	mk := func(neg bool, c *big.Int, q int) (ref.Bits, bool) {
		v, ok := ref.Fit(neg, c, q)
		if !ok {
			return ref.Bits{}, false
		}
		return MkBits(neg, v.C, v.Q), true
	}
	var xs, ys []ref.Bits
	addTo := func(l *[]ref.Bits, neg bool, c *big.Int, q int) {
		if b, ok := mk(neg, c, q); ok {
			*l = append(*l, b)
		}
	}
	// exponents for the ladder
	for _, q := range []int{ref.MinQ, -1, 0, 2, ref.MaxQ} {
		addTo(&ys, false, new(big.Int), q)
		addTo(&ys, true, new(big.Int), q)
	}
	for _, s := range []bool{false, true} {
		cs, qs := Cohort(big.NewInt(1), 0)
		for k := range cs {
			if k%4 == 0 || k == len(cs)-1 {
				ys = append(ys, MkBits(s, cs[k], qs[k]))
			}
		}
		cs, qs = Cohort(big.NewInt(5), -1)
		for k := range cs {
			if k%4 == 0 || k == len(cs)-1 {
				ys = append(ys, MkBits(s, cs[k], qs[k]))
			}
		}
	}
	for n := int64(2); n <= 40; n++ {
		addTo(&ys, false, big.NewInt(n), 0)
		if n < 12 {
			addTo(&ys, true, big.NewInt(n), 0)
		}
	}
	for _, s := range []string{"100", "1000", "6111", "6112", "6144", "6145", "6146", "6176", "6177", "3055", "3056", "3088", "3089", "2037", "2038", "12288", "100000", "100001", "99999999", "1e20", "1e33", "1e34", "12345678901234567890123456789012345", "1e40", "1e100"} {
		l, _ := ref.ParseLit(s)
		addTo(&ys, false, l.C, l.Q)
		addTo(&ys, true, l.C, l.Q)
	}
	for _, s := range []string{"0.25", "1.5", "2.5", "-1.5", "0.1", "0.3333333333333333333333333333333333", "0.1234567890123456789012345678901234", "7.5", "100.5", "1e-20", "1e-40", "1e-6176", "0.5000000000000000000000000000000001", "0.4999999999999999999999999999999999", "1.000000000000000000000000000000001", "0.9999999999999999999999999999999999", "-0.25", "-7.5", "33.33", "-0.0001"} {
		l, _ := ref.ParseLit(s)
		addTo(&ys, l.Neg, l.C, l.Q)
	}
	// bases
	for k := ref.MinQ; k <= ref.MaxQ+34; k++ {
		if r.Thorough() || k%23 == 0 || (k > -40 && k < 40) || k < ref.MinQ+3 || k > ref.MaxQ+30 {
			addTo(&xs, false, big.NewInt(1), k)
			if k%2 == 0 {
				addTo(&xs, true, big.NewInt(1), k)
			}
			if k > -36 && k < 0 {
				// other cohorts of the same power of ten
				addTo(&xs, false, ref.Pow10(-k), k+k)
			}
		}
	}
	for k := 1; k <= 34; k++ {
		for _, j := range []int64{1, 3, 9} {
			p := ref.Pow10(k)
			addTo(&xs, false, new(big.Int).Add(p, big.NewInt(j)), -k)
			addTo(&xs, false, new(big.Int).Sub(p, big.NewInt(j)), -k)
			if k%6 == 0 {
				addTo(&xs, true, new(big.Int).Add(p, big.NewInt(j)), -k)
			}
		}
	}
	for ab := int64(10); ab <= 99; ab++ {
		addTo(&xs, false, big.NewInt(ab), -1)
		if ab%3 == 0 {
			addTo(&xs, false, big.NewInt(ab), 0)
			addTo(&xs, false, big.NewInt(ab), -2)
			addTo(&xs, true, big.NewInt(ab), -1)
			addTo(&xs, false, new(big.Int).Add(new(big.Int).Mul(big.NewInt(ab), ref.Pow10(32)), big.NewInt(1)), -33)
		}
	}
	for _, c := range SmallShapes() {
		for _, q := range []int{-40, -34, -17, -1, 0, 1, 30, -3000, 3000, ref.MinQ, ref.MaxQ} {
			addTo(&xs, false, c, q)
			if q == 0 || q == -1 {
				addTo(&xs, true, c, q)
			}
		}
	}
	for _, s := range []string{"2", "3", "0.5", "-2", "-3", "-0.5", "10.00000000000000000000000000000001", "9.999999999999999999999999999999999", "100.0000000000000000000000000000001", "0.09999999999999999999999999999999999", "2.718281828459045235360287471352662", "1e-6176", "9e-6176"} {
		l, _ := ref.ParseLit(s)
		addTo(&xs, l.Neg, l.C, l.Q)
	}
	xs, ys = uniqBits(xs), uniqBits(ys)
	r.Bounds["bases"] = len(xs)
	r.Bounds["exponents"] = len(ys)
	t0 = time.Now()
	r.Par(len(xs), func(w *eng.W, i int) {
		for _, y := range ys {
			checkPow(w, xs[i], y)
		}
	})
	r.Phase("ladder x general product", t0, nil)

	// powers of ten x integer exponents written in every encoding k*10^e (the shortcut reads the
	// exponent field of y): results on both sides of the range ends
	t0 = time.Now()
	var x10, yenc []ref.Bits
	for k := ref.MinQ; k <= ref.MaxQ+34; k++ {
		if r.Thorough() || k%11 == 0 || (k > -70 && k < 70) || k < ref.MinQ+3 || k > ref.MaxQ+30 || (k > ref.MaxQ-3 && k < ref.MaxQ+3) {
			addTo(&x10, false, big.NewInt(1), k)
			if k%3 == 0 {
				addTo(&x10, true, big.NewInt(1), k)
			}
			if k > -34 && k < 0 && k%4 == 0 {
				addTo(&x10, false, ref.Pow10(-k), k+k)
			}
		}
	}
	for e := 0; e <= 12; e++ {
		for _, kk := range []int64{1, 2, 3, 4, 6, 7, 9, 10, 11, 25, 30, 61, 62, 100, 611, 612, 617, 618, 6111, 6112, 6144, 6145, 6176, 6177, 61110, 65535, 65536} {
			addTo(&yenc, false, big.NewInt(kk), e)
			if kk < 8 || kk == 6111 {
				addTo(&yenc, true, big.NewInt(kk), e)
			}
		}
	}
	for e := 13; e <= 40; e += 3 {
		addTo(&yenc, false, big.NewInt(1), e)
		addTo(&yenc, false, big.NewInt(3), e)
	}
	x10, yenc = uniqBits(x10), uniqBits(yenc)
	r.Bounds["pow10_bases"] = len(x10)
	r.Bounds["integer_exponent_encodings"] = len(yenc)
	r.Par(len(x10), func(w *eng.W, i int) {
		for _, y := range yenc {
			checkPow(w, x10[i], y)
		}
	})
	r.Phase("powers of ten x integer exponents in every encoding", t0, nil)

	// word-structured coefficients (a 64-bit word zero / all ones / at a decimal limit) as base and as exponent:
	// the 192-bit helpers behind log, mul and e^x test and carry word by word
	t0 = time.Now()
	var xw, yw, xfew, yfew []ref.Bits
	for _, K := range WordShapes() {
		L := len(K.String())
		for _, sh := range []int{-L, -L + 1, -L - 1, -L - 20, 0} {
			addTo(&xw, false, K, sh)
		}
		for _, sh := range []int{-L, -L + 1, -L + 2, -L - 5, -L - 30} {
			addTo(&yw, false, K, sh)
			if sh == -L {
				addTo(&yw, true, K, sh)
			}
		}
	}
	for _, s := range []string{"2", "3", "-2", "1.5", "0.1", "10", "33.33", "1e-20", "-0.75", "123456789"} {
		l, _ := ref.ParseLit(s)
		addTo(&yfew, l.Neg, l.C, l.Q)
	}
	for _, s := range []string{"2", "0.5", "3", "1.1", "0.9", "1.000000000000000000000000000000001", "0.9999999999999999999999999999999999", "10.00000000000000000000000000000001", "7e-100", "12345678901234567890e40"} {
		l, _ := ref.ParseLit(s)
		addTo(&xfew, l.Neg, l.C, l.Q)
	}
	xw, yw = uniqBits(xw), uniqBits(yw)
	r.Bounds["word_structured_bases"] = len(xw)
	r.Bounds["word_structured_exponents"] = len(yw)
	r.Par(len(xw), func(w *eng.W, i int) {
		for _, y := range yfew {
			checkPow(w, xw[i], y)
		}
	})
	r.Par(len(yw), func(w *eng.W, i int) {
		for _, x := range xfew {
			checkPow(w, x, yw[i])
		}
	})
	r.Phase("word-structured bases and exponents", t0, nil)

	// bases 2^a*10^s and 5^a*10^s with small integer exponents of both signs: the power (or its reciprocal)
	// is an exact binary-limit value such as 2^182*10^q, where the 192-bit quotient loops change regime
	t0 = time.Now()
	var xp, yp []ref.Bits
	for a := 1; a <= 112; a++ {
		for _, base := range []int64{2, 5} {
			K := new(big.Int).Exp(big.NewInt(base), big.NewInt(int64(a)), nil)
			if K.Cmp(ref.Cmax) > 0 {
				continue
			}
			L := len(K.String())
			for _, sh := range []int{0, -L, -L - 6, -40, -L + 2} {
				if !r.Thorough() && sh == -L+2 {
					continue
				}
				addTo(&xp, false, K, sh)
			}
		}
	}
	for n := int64(2); n <= 40; n++ {
		addTo(&yp, false, big.NewInt(n), 0)
		addTo(&yp, true, big.NewInt(n), 0)
	}
	xp = uniqBits(xp)
	r.Bounds["power_of_two_and_five_bases"] = len(xp)
	r.Par(len(xp), func(w *eng.W, i int) {
		for _, y := range yp {
			checkPow(w, xp[i], y)
		}
	})
	r.Phase("powers of two and five as bases x small integer exponents", t0, nil)

	// exponents that land the power at the thresholds: y = ln(T)/ln(x) rounded to 34 digits +- few ulps
	t0 = time.Now()
	c := hp.Get(hpP2)
	lnMax := c.LnDec(ref.Cmax, ref.MaxQ)
	lnMin := c.LnDec(big.NewInt(1), ref.MinQ)
	lnTiny := c.LnDec(big.NewInt(1), ref.MinQ-1)
	var thr [][2]ref.Bits
	for _, xb := range xs {
		x := ref.Decode(xb)
		if x.Neg || valIsOne(x) {
			continue
		}
		xc, _ := strip(x)
		if xc.Cmp(big.NewInt(1)) == 0 {
			continue
		}
		ln := c.LnDec(x.C, x.Q)
		for _, T := range []*big.Float{lnMax, lnMin, lnTiny} {
			yv := new(big.Float).SetPrec(hpP2).Quo(T, ln)
			s := new(big.Float).Abs(yv).Text('e', 33)
			i := strings.IndexByte(s, 'e')
			var e int
			fmt.Sscanf(strings.TrimLeft(strings.TrimPrefix(s[i+1:], "+"), "0")+" ", "%d", &e)
			if strings.HasPrefix(s[i+1:], "-") {
				fmt.Sscanf(strings.TrimLeft(s[i+2:], "0")+" ", "%d", &e)
				e = -e
			}
			cc := bi(strings.Replace(s[:i], ".", "", 1))
			for d := int64(-2); d <= 2; d++ {
				if yb, ok := mk(yv.Sign() < 0, new(big.Int).Add(cc, big.NewInt(d)), e-33); ok {
					thr = append(thr, [2]ref.Bits{xb, yb})
				}
			}
		}
	}
	if !r.Thorough() {
		var sub [][2]ref.Bits
		for i, p := range thr {
			if i%4 == 0 {
				sub = append(sub, p)
			}
		}
		thr = sub
	}
	r.Bounds["threshold_pairs"] = len(thr)
	r.Par(len(thr), func(w *eng.W, i int) { checkPow(w, thr[i][0], thr[i][1]) })
	r.Phase("threshold exponents", t0, nil)

	// amplified logarithm error: the tolerance grows with |y|, and so does the effect of the logarithm's own error.
	// Bases at both ends and inside every slot of the two-digit logarithm table (ab.000..1, ab.5, ab.999..9, a finer
	// sweep of the slots 10 and 95..99 where the series argument is largest), at several decimal magnitudes, against
	// exponents that are fixed fractions (0.999, 1/2, 1/10, 1/100, both signs) of the exponent that reaches the
	// overflow threshold: the allowed relative error is then the same for every base, and the result stays in range.
	t0 = time.Now()
	var slotBases []ref.Bits
	nines := func(ab int64, n int) *big.Int { // ab followed by n nines
		return new(big.Int).Sub(new(big.Int).Mul(big.NewInt(ab+1), ref.Pow10(n)), big.NewInt(1))
	}
	for ab := int64(10); ab <= 99; ab++ {
		for _, k := range []int{-33, -32, -28, -40} {
			addTo(&slotBases, false, nines(ab, 32), k) // ab.99..9 x 10^(k+32)
		}
		addTo(&slotBases, false, big.NewInt(ab*10+5), -2)
		addTo(&slotBases, false, nines(ab, 3), -4)
		addTo(&slotBases, false, nines(ab, 8), -3)
	}
	for _, s := range []string{"1.01", "1.02", "1.03", "1.04", "1.05", "1.06", "1.07", "1.08", "1.09", "1.091", "1.093", "1.095", "1.097", "1.099", "1.0999", "1.09999999", "1.096",
		"0.951", "0.96", "0.97", "0.98", "0.99", "0.9501", "10.7", "109.9", "0.1099", "1.0999e-7", "1.0985e30", "9.51e-1", "9.6e4"} {
		l, _ := ref.ParseLit(s)
		addTo(&slotBases, false, l.C, l.Q)
	}
	slotBases = uniqBits(slotBases)
	if !r.Thorough() {
		var sub []ref.Bits
		for i, b := range slotBases {
			v := ref.Decode(b)
			lead := new(big.Int).Quo(v.C, ref.Pow10(ref.NumDigits(v.C)-2)).Int64()
			if i%3 == 0 || lead == 10 || lead >= 95 {
				sub = append(sub, b)
			}
		}
		slotBases = sub
	}
	var amp [][2]ref.Bits
	for _, xb := range slotBases {
		x := ref.Decode(xb)
		ln := c.LnDec(x.C, x.Q)
		if ln.Sign() == 0 {
			continue
		}
		for _, frac := range []float64{0.999, 0.5, 0.1, 0.01, -0.999, -0.5, -0.1} {
			yv := new(big.Float).SetPrec(hpP2).Quo(lnMax, ln)
			yv.Mul(yv, big.NewFloat(frac))
			s := new(big.Float).Abs(yv).Text('e', 33)
			i := strings.IndexByte(s, 'e')
			e, _ := strconv.Atoi(s[i+1:])
			cc := bi(strings.Replace(s[:i], ".", "", 1))
			if yb, ok := mk(yv.Sign() < 0, cc, e-33); ok {
				amp = append(amp, [2]ref.Bits{xb, yb})
			}
			// the same magnitude as a short exponent (5 digits): a different path through the multiplication y*ln x
			if yb, ok := mk(yv.Sign() < 0, new(big.Int).Quo(cc, ref.Pow10(29)), e-4); ok {
				amp = append(amp, [2]ref.Bits{xb, yb})
			}
		}
	}
	r.Bounds["amplified_log_error_pairs"] = len(amp)
	r.Par(len(amp), func(w *eng.W, i int) {
		checkPow(w, amp[i][0], amp[i][1])
		w.Cell("Pow/amplified-log-error", true)
	})
	r.Phase("amplified logarithm error", t0, nil)

	// Pow == PowWithMode(Default)
	t0 = time.Now()
	saved := dec.DefaultRoundingMode
	for drm := 0; drm < 6; drm++ {
		dec.DefaultRoundingMode = LibModes[drm]
		r.Par(len(xs), func(w *eng.W, i int) {
			if i%5 != 0 {
				return
			}
			var n int64
			for k, y := range ys {
				if k%3 != 0 {
					continue
				}
				w.Set2("Pow", "", xs[i], y)
				a := B(D(xs[i]).Pow(D(y)))
				b := B(D(xs[i]).PowWithMode(D(y), LibModes[drm]))
				n++
				if !ref.SameValue(ref.Decode(a), ref.Decode(b)) {
					w.R.Fail(eng.Case{Op: "Pow(default)", Args: []string{xs[i].Hex(), y.Hex()}, DRM: MName(drm), Got: ref.Decode(a).String(), Want: ref.Decode(b).String()})
				}
			}
			w.EvalN(n)
			w.CellN("Pow/default-mode/"+MName(drm), n, true)
		})
	}
	dec.DefaultRoundingMode = saved
	r.Extra["undecided"] = powUndecided
	r.Phase("default mode", t0, nil)
	r.Require("Pow/shortcut-exact", "Pow/nan", "Pow/beyond-range-inf", "Pow/beyond-range-zero", "Pow/approx", "Pow/approx/subnormal", "Pow/approx/above-max")
}

func uniqBits(in []ref.Bits) []ref.Bits {
	seen := map[ref.Bits]bool{}
	var out []ref.Bits
	for _, b := range in {
		if !seen[b] {
			seen[b] = true
			out = append(out, b)
		}
	}
	return out
}

func c18Vectors(r *eng.Run) {
	vs := ReadVectors(r, "TestDecimalPow")
	if len(vs) == 0 {
		r.SelfFail("no Pow vectors")
		return
	}
	bad := 0
	for _, v := range vs {
		if v.File != "simple.txt" {
			continue
		}
		i := strings.Index(v.LHS, " ^ ")
		if i < 0 {
			continue
		}
		al, ok1 := ref.ParseLit(strings.TrimSpace(v.LHS[:i]))
		bl, ok2 := ref.ParseLit(strings.TrimSpace(v.LHS[i+3:]))
		if !ok1 || !ok2 || al.Class != ref.Fin || bl.Class != ref.Fin || al.C.Sign() == 0 {
			continue
		}
		x, y := ref.RoundLit(al, ref.NearestEven), ref.RoundLit(bl, ref.NearestEven)
		for m := 0; m < 6; m++ {
			el, ok := ref.ParseLit(v.RHS[m])
			if !ok {
				continue
			}
			want := ref.RoundLit(el, ref.NearestEven)
			verdict, _, _ := judgePow(x, y, want, m)
			r.Traces.Add(1)
			if verdict != "" && bad < 4 {
				bad++
				r.SelfFail("oracle rejects repository vector %s:%d %s = %s (mode %s): %s", v.File, v.Line, v.LHS, v.RHS[m], MName(m), verdict)
			}
		}
	}
}
