package props

import (
	"bytes"
	"fmt"
	"math/big"
	"time"

	dec "github.com/woodsbury/decimal128"

	"verifmc/eng"
	"verifmc/ref"
)

func lowShapes() [][2]uint64 {
	// (hi low 47 bits, lo 64 bits)
	const m47 = 0x7fffffffffff
	out := [][2]uint64{{0, 0}, {0, 1}, {m47, ^uint64(0)}, {0, ^uint64(0)}, {m47, 0}, {1, 0}, {0x400000000000, 0},
		{0x3fffffffffff, ^uint64(0)}, {0x2aaaaaaaaaaa, 0xaaaaaaaaaaaaaaaa}, {0x555555555555, 0x5555555555555555},
		{0x123456789abc, 0xdef0123456789abc}, {0, 1 << 63}, {0, 0xff}, {0, 0xff00}, {0, 0xff0000}, {0, 0xff000000}, {0, 0xff00000000},
		{0, 0xff0000000000}, {0, 0xff000000000000}, {0, 0xff00000000000000}, {0xff, 0}, {0xff00, 0}, {0xff0000, 0}, {0xff000000, 0},
		{0xff00000000, 0}, {0x7f0000000000, 0}, {0x0001ffffffff, 0xffffffff00000000}, {0x27ff, 0x1}, {0x4000, 0x8000000000000000}}
	for k := 1; k < 47; k += 5 {
		out = append(out, [2]uint64{1 << uint(k), 0})
	}
	for k := 1; k < 64; k += 7 {
		out = append(out, [2]uint64{0, 1 << uint(k)})
	}
	return out
}

func C12(r *eng.Run) {
	r.Level = "exploration"
	r.Rule = "all 2^17 values of the top 17 bits (sign, combination field, every biased exponent in both forms, every special prefix) x low-bit shapes of the remaining 111 bits: " +
		"UnmarshalBinary then MarshalBinary is bit-identical and 16 bytes; the library's own reading of the value through Decompose / IsNaN / IsInf / Signbit equals an independent IEEE 754-2008 BID decoder's reading of the same bytes " +
		"(sign, coefficient, exponent); values built without the binary codec (Compose) marshal to the IEEE-canonical bytes the independent encoder produces; every slice length 0..64 and nil. " +
		"Non-trivial = form-2 (steering bits 11) patterns, specials with garbage bits, zero coefficients with non-zero exponent."
	r.Assumptions = []string{"the independent decoder/encoder in mc/ref/bid.go is written from IEEE 754-2008 3.5.2, not from the library"}
	shapes := lowShapes()
	r.Bounds["top17_values"] = 1 << 17
	r.Bounds["low_shapes"] = len(shapes)
	t0 := time.Now()
	r.Par(1<<17, func(w *eng.W, top int) {
		var nform2, nspecial, nzero, nplain int64
		buf := make([]byte, 16)
		for _, sh := range shapes {
			hi := uint64(top)<<47 | sh[0]
			b := ref.FromWords(hi, sh[1])
			copy(buf, b[:])
			w.Set1("UnmarshalBinary", "", b)
			var d dec.Decimal
			// start from a non-zero receiver so a no-op Unmarshal is caught
			d = dec.New(7, 3)
			err := d.UnmarshalBinary(buf)
			w.Eval()
			if err != nil {
				w.R.Fail(eng.Case{Op: "UnmarshalBinary", Args: []string{b.Hex()}, Got: "error " + err.Error(), Want: "accepts every 16-byte string"})
				continue
			}
			if !bytes.Equal(buf, b[:]) {
				w.R.Fail(eng.Case{Op: "UnmarshalBinary", Args: []string{b.Hex()}, Got: "input slice modified", Want: "input untouched"})
			}
			out, err := d.MarshalBinary()
			if err != nil || len(out) != 16 || !bytes.Equal(out, b[:]) {
				w.R.Fail(eng.Case{Op: "MarshalBinary", Args: []string{b.Hex()}, Got: fmt.Sprintf("%x err=%v", out, err), Want: b.Hex()})
				continue
			}
			// mutate the input afterwards: the Decimal must not alias it
			buf[3] ^= 0xff
			if out2, _ := d.MarshalBinary(); !bytes.Equal(out2, b[:]) {
				w.R.Fail(eng.Case{Op: "UnmarshalBinary", Args: []string{b.Hex()}, Got: "Decimal aliases the input slice", Want: "value semantics"})
			}
			// semantic reading through the non-binary API
			v := ref.Decode(b)
			form, neg, coef, exp := d.Decompose(nil)
			got := fmt.Sprintf("form=%d neg=%v nan=%v inf=%v sign=%v", form, neg, d.IsNaN(), d.IsInf(0), d.Signbit())
			var want string
			valueOK := true
			switch v.Class {
			case ref.NaN:
				want = fmt.Sprintf("form=2 neg=%v nan=true inf=false sign=%v", v.Neg, v.Neg)
				nspecial++
			case ref.Inf:
				want = fmt.Sprintf("form=1 neg=%v nan=false inf=true sign=%v", v.Neg, v.Neg)
				nspecial++
			default:
				// the parts must denote the value the independent decoder reads (which of the equal
				// (coefficient, exponent) pairs Decompose reports is C14's business, not the binary form's)
				want = fmt.Sprintf("form=0 neg=%v nan=false inf=false sign=%v", v.Neg, v.Neg)
				valueOK = sameValueParts(coef, int(exp), v)
				if v.C.Sign() == 0 {
					nzero++
				} else if hi&0x6000000000000000 == 0x6000000000000000 {
					nform2++
				} else {
					nplain++
				}
			}
			if !valueOK {
				got += fmt.Sprintf(" coef=%x exp=%d", coef, exp)
				want += " coefficient*10^exponent = " + v.String()
			}
			if got != want || !valueOK {
				w.R.Fail(eng.Case{Op: "Decompose(UnmarshalBinary)", Args: []string{b.Hex()}, Got: got, Want: want, Note: "independent BID decoding: " + v.String()})
			}
		}
		w.CellN("pattern/form2", nform2, true)
		w.CellN("pattern/special", nspecial, true)
		w.CellN("pattern/zero", nzero, true)
		w.CellN("pattern/form1", nplain, false)
	})
	r.Phase("A1 all top-17-bit values x low shapes", t0, nil)

	// A2: values built without the binary codec marshal to IEEE-canonical bytes
	t0 = time.Now()
	cs := Shapes(true)
	var exps []int
	for q := ref.MinQ; q <= ref.MaxQ; q++ {
		if r.Thorough() || q < ref.MinQ+40 || q > ref.MaxQ-40 || (q > -50 && q < 50) || q%97 == 0 {
			exps = append(exps, q)
		}
	}
	r.Bounds["compose_shapes"] = len(cs)
	r.Bounds["compose_exponents"] = len(exps)
	r.Par(len(cs), func(w *eng.W, i int) {
		c := cs[i]
		cb := c.Bytes()
		var n34, n35 int64
		for _, q := range exps {
			for s := 0; s < 2; s++ {
				var d dec.Decimal
				w.SetS("Compose->MarshalBinary", "", fmt.Sprintf("%v e%d", c, q))
				if err := d.Compose(0, s == 1, cb, int32(q)); err != nil {
					w.R.Fail(eng.Case{Op: "Compose->MarshalBinary", Args: []string{c.String(), itoa(q), itoa(s)}, Got: "Compose error " + err.Error(), Want: "representable"})
					continue
				}
				out, _ := d.MarshalBinary()
				want, _ := ref.Encode(s == 1, c, q)
				w.Eval()
				var ob ref.Bits
				copy(ob[:], out)
				if len(out) != 16 || ob != want {
					// Compose may choose another cohort member; then the value must still match, and the
					// canonical-form requirement is checked on what Decompose reports for d.
					_, _, coef, e := d.Decompose(nil)
					w2, ok := ref.Encode(s == 1, new(big.Int).SetBytes(coef), int(e))
					if !ok || len(out) != 16 || ob != w2 || !ref.SameValue(ref.Decode(ob), ref.Decode(want)) {
						w.R.Fail(eng.Case{Op: "Compose->MarshalBinary", Args: []string{c.String(), itoa(q), itoa(s)}, Got: fmt.Sprintf("%x", out), Want: want.Hex()})
					}
				}
				if ref.NumDigits(c) <= 34 {
					n34++
				} else {
					n35++
				}
			}
		}
		w.CellN("canonical/coefficient<=34digits", n34, true)
		w.CellN("canonical/35digits", n35, true)
	})
	r.Phase("A2 canonical encoding of composed values", t0, nil)

	// A3: lengths
	t0 = time.Now()
	r.Seq(func(w *eng.W) {
		for n := 0; n <= 64; n++ {
			for _, fill := range []byte{0, 0xff, 0x30} {
				data := bytes.Repeat([]byte{fill}, n)
				snap := append([]byte{}, data...)
				d := dec.New(7, 3)
				w.SetS("UnmarshalBinary(len)", "", fmt.Sprint(n))
				err := d.UnmarshalBinary(data)
				w.Eval()
				if (err == nil) != (n == 16) {
					w.R.Fail(eng.Case{Op: "UnmarshalBinary(len)", Args: []string{itoa(n)}, Got: fmt.Sprint("err=", err), Want: "error iff len != 16"})
				}
				if !bytes.Equal(data, snap) {
					w.R.Fail(eng.Case{Op: "UnmarshalBinary(len)", Args: []string{itoa(n)}, Got: "input modified", Want: "input untouched"})
				}
				w.Cell(fmt.Sprintf("length/%d", n), n != 16)
			}
		}
		var d dec.Decimal
		if err := d.UnmarshalBinary(nil); err == nil {
			w.R.Fail(eng.Case{Op: "UnmarshalBinary(len)", Args: []string{"nil"}, Got: "accepted", Want: "error"})
		}
		w.Eval()
	})
	r.Phase("A3 slice lengths", t0, nil)
	r.Require("pattern/form2", "pattern/special", "pattern/zero", "canonical/35digits")
}

func init() { Checks["C12"] = Check{C12, "exploration"} }
