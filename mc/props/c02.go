package props

import (
	"fmt"
	"math/big"
	"time"

	"verifmc/eng"
	"verifmc/ref"
)

// mulQuoPair checks Mul and Quo of |x|=c1*10^qx, |y|=c2*10^qy for 4 sign combinations and 6 modes.
func mulQuoPair(w *eng.W, cl *rcells, c1 *big.Int, qx int, c2 *big.Int, qy int, ops []arithOp) {
	xp := ref.Val{Class: ref.Fin, C: c1, Q: qx}
	yp := ref.Val{Class: ref.Fin, C: c2, Q: qy}
	var xs, ys [2]ref.Bits
	for s := 0; s < 2; s++ {
		xs[s] = MkBits(s == 1, c1, qx)
		ys[s] = MkBits(s == 1, c2, qy)
	}
	for _, op := range ops {
		var p *ref.Prepared
		if c1.Sign() != 0 && c2.Sign() != 0 {
			if op == opMul {
				p = ref.PrepMul(xp, yp)
			} else {
				p = ref.PrepQuo(xp, yp)
			}
		}
		for sx := 0; sx < 2; sx++ {
			x := D(xs[sx])
			for sy := 0; sy < 2; sy++ {
				y := D(ys[sy])
				neg := sx != sy
				var pn *ref.Prepared
				if p != nil {
					pn = p.WithNeg(neg)
				}
				for m := 0; m < 6; m++ {
					var want ref.Val
					var info ref.RInfo
					if pn != nil {
						want, info = pn.Pick(Modes[m])
					} else {
						want, info = specArith(op, ref.Decode(xs[sx]), ref.Decode(ys[sy]), m)
					}
					checkPicked(w, cl, op, x, y, xs[sx], ys[sy], m, want, info)
				}
			}
		}
	}
}

var mulQuo = []arithOp{opMul, opQuo}

func divisorShapes() []*big.Int {
	his := []uint64{1, 2, 3, 0xff, 0x18ff, 0xffff, 0x27fff, 0xffffffff, 0x1ffffffffff, 0x27ffffffffffe, 0x18fffffffffff, 0x2000000000000}
	los := []uint64{0, 1, 1 << 63, ^uint64(0), ^uint64(0) - 1, 0x8000000000000001, 0xffffffff00000000, 0x00000000ffffffff}
	var out []*big.Int
	for _, h := range his {
		for _, l := range los {
			z := new(big.Int).Lsh(new(big.Int).SetUint64(h), 64)
			z.Or(z, new(big.Int).SetUint64(l))
			if z.Cmp(ref.Cmax) <= 0 {
				out = append(out, z)
			}
		}
	}
	for _, v := range []uint64{0x18ffffffffffffff, 0x1900000000000000, 0x27fffffffffff, 0x2800000000000, ^uint64(0), 1 << 63, 0xffffffff, 0x100000000, 0x100000001} {
		out = append(out, new(big.Int).SetUint64(v))
	}
	return dedupe(out)
}

func C02(r *eng.Run) {
	r.Rule = "bounded-exhaustive product: coefficient shapes K x K (x small integers 1..N, x long-division divisor shapes) x 4 sign combinations x {Mul,Quo} x 6 modes at mid-range, every leading-digit prefix and word-threshold coefficient against a reduced alphabet, binary-limit digit prefixes times powers of ten at every product magnitude (three splits each), dropped-digit steering (A*(10^j+1), A*2^j, A/2^-j with A's low digits set to every sticky-tail pattern), the operation-sequence closure of C01, " +
		"plus every result decade in windows around the underflow (1e-6215..1e-6170) and overflow (1e6140..1e6185) thresholds, zero/special operands and the DefaultRoundingMode sweep; " +
		"oracle = exact big-integer product / rational quotient rounded by the specification (tiny rule, overflow rule). Cells as in C01."
	r.Assumptions = []string{"binary codec is the identity on bits (checked at start; decided by C12)",
		"reference rounding model bound to the repository's Mul/Quo vectors on every run"}
	if !CodecSanity(r) {
		return
	}
	t0 := time.Now()
	arithVectors(r, "TestDecimalMul", " * ", opMul)
	arithVectors(r, "TestDecimalQuo", " / ", opQuo)
	r.Phase("vectors", t0, nil)

	shapes := Shapes(r.Thorough())
	r.Bounds["coefficient_shapes"] = len(shapes)
	t0 = time.Now()
	exps := [][2]int{{0, 0}, {-20, 3}, {17, -40}}
	if r.Thorough() {
		exps = append(exps, [2]int{-3000, 2990}, [2]int{1, 1})
	}
	r.Par(len(shapes), func(w *eng.W, i int) {
		cl := &rcells{samp: map[int]string{}}
		for _, c2 := range shapes {
			for _, e := range exps {
				mulQuoPair(w, cl, shapes[i], e[0], c2, e[1], mulQuo)
			}
		}
		cl.flush(w)
	})
	r.Phase("A1 shape product", t0, nil)

	// A1b: every leading-digit prefix against the small alphabet
	t0 = time.Now()
	nlead := 2
	if r.Thorough() {
		nlead = 3
	}
	leads := append(append(append(LeadSweep(nlead), WordShapes()...), LimitShapes()...), WeylShapes(48)...)
	smx := SmallShapes()
	r.Bounds["lead_prefix_digits"] = nlead
	r.Par(len(leads), func(w *eng.W, i int) {
		cl := &rcells{}
		for _, c2 := range smx {
			mulQuoPair(w, cl, leads[i], 0, c2, 0, mulQuo)
			mulQuoPair(w, cl, c2, 0, leads[i], 0, []arithOp{opQuo})
		}
		cl.flush(w)
	})
	r.Phase("A1b lead sweep", t0, nil)

	// A1c: binary-limit digit prefixes at every decimal magnitude of the product: p*10^i x m*10^j for every total
	// scaling i+j (three splits each), m in {1,2,5}. The word tests of the multi-word helpers sit at fixed binary
	// positions (2^64, 2^128, 2^192 times 10, 100, 1000, 10000), so a product must be placed just below and just
	// above each of them whatever power of ten that takes (round-4 change C20-7: top word exactly 10000).
	t0 = time.Now()
	lps := LimitPrefixes()
	r.Bounds["limit_prefix_products"] = len(lps)
	r.Par(len(lps), func(w *eng.W, i int) {
		cl := &rcells{}
		p := bi(lps[i])
		L := len(lps[i])
		if L > 35 {
			return
		}
		for k := 0; k <= 69-L; k++ {
			lo := k - 34 // smallest padding of p so that the other factor 10^(k-i) keeps <= 35 digits
			if lo < 0 {
				lo = 0
			}
			hi := 35 - L
			if hi > k {
				hi = k
			}
			if lo > hi {
				continue
			}
			for _, pad := range []int{lo, (lo + hi) / 2, hi} {
				a := new(big.Int).Mul(p, ref.Pow10(pad))
				if a.Cmp(ref.Cmax) > 0 {
					continue
				}
				for _, m := range []int64{1, 2, 5} {
					b := new(big.Int).Mul(big.NewInt(m), ref.Pow10(k-pad))
					if b.Cmp(ref.Cmax) > 0 {
						continue
					}
					mulQuoPair(w, cl, a, 0, b, -k, []arithOp{opMul})
					mulQuoPair(w, cl, b, 3, a, 0, []arithOp{opMul})
				}
			}
		}
		cl.flush(w)
	})
	r.Phase("A1c limit prefixes at every product magnitude", t0, nil)

	// A2: small integer multipliers/divisors: exact ties, terminating and repeating quotients
	t0 = time.Now()
	nsmall := 400
	if r.Thorough() {
		nsmall = 3000
	}
	r.Bounds["small_integers"] = nsmall
	r.Par(len(shapes), func(w *eng.W, i int) {
		cl := &rcells{samp: map[int]string{}}
		for k := 1; k <= nsmall; k++ {
			kk := big.NewInt(int64(k))
			mulQuoPair(w, cl, shapes[i], 0, kk, 0, mulQuo)
			mulQuoPair(w, cl, kk, 0, shapes[i], 0, []arithOp{opQuo})
		}
		// K / (K±1), K / Cmax, K * ties
		for _, d := range []int64{-1, 1} {
			z := new(big.Int).Add(shapes[i], big.NewInt(d))
			if z.Sign() > 0 && z.Cmp(ref.Cmax) <= 0 {
				mulQuoPair(w, cl, shapes[i], 0, z, 0, mulQuo)
				mulQuoPair(w, cl, z, 0, shapes[i], 0, []arithOp{opQuo})
			}
		}
		cl.flush(w)
	})
	r.Phase("A2 small integers", t0, nil)

	// A2b: steering the dropped digits: A * (10^j + 1) keeps A's low j digits as the dropped tail of the product, and
	// A / 2^-j = A * 2^j is an exact quotient with up to four extra digits; A = full-precision shape with its low
	// digits replaced by every sticky-tail pattern
	t0 = time.Now()
	var fullK []*big.Int
	for _, s := range shapes {
		if ref.NumDigits(s) >= 33 {
			fullK = append(fullK, s)
		}
	}
	tails := stickyTails(5)
	r.Bounds["steering_tails"] = len(tails)
	r.Par(len(fullK), func(w *eng.W, i int) {
		cl := &rcells{samp: map[int]string{}}
		K := fullK[i]
		for _, tl := range tails {
			t := ref.NumDigits(tl)
			for _, parity := range []int64{0, 1} {
				// low t+1 digits of A: one kept digit of the chosen parity, then the tail
				mod := ref.Pow10(t + 1)
				A := new(big.Int).Sub(K, new(big.Int).Mod(K, mod))
				A.Add(A, new(big.Int).Mul(big.NewInt(4+parity), ref.Pow10(t)))
				A.Add(A, tl)
				if A.Cmp(ref.Cmax) > 0 || A.Sign() <= 0 {
					continue
				}
				for j := 1; j <= 5; j++ {
					mulQuoPair(w, cl, A, 0, new(big.Int).Add(ref.Pow10(j), big.NewInt(1)), 0, []arithOp{opMul})
				}
				for j := 1; j <= 13; j++ {
					// 2^-j = 5^j * 10^-j
					mulQuoPair(w, cl, A, 0, new(big.Int).Exp(big.NewInt(5), big.NewInt(int64(j)), nil), -j, []arithOp{opQuo})
					mulQuoPair(w, cl, A, 0, new(big.Int).Lsh(big.NewInt(1), uint(j)), 0, []arithOp{opMul})
				}
			}
		}
		cl.flush(w)
	})
	r.Phase("A2b dropped-digit steering", t0, nil)

	// A3: long-division shapes
	t0 = time.Now()
	divs := divisorShapes()
	r.Bounds["divisor_shapes"] = len(divs)
	all := dedupe(append(append([]*big.Int{}, divs...), shapes...))
	r.Par(len(divs), func(w *eng.W, i int) {
		cl := &rcells{samp: map[int]string{}}
		for _, c := range all {
			mulQuoPair(w, cl, c, 0, divs[i], 0, mulQuo)
			mulQuoPair(w, cl, divs[i], 0, c, 0, []arithOp{opQuo})
		}
		cl.flush(w)
	})
	r.Phase("A3 divisor shapes", t0, nil)

	// A4: range windows
	t0 = time.Now()
	small := SmallShapes()
	var targets []int
	for t := -6215 - 70; t <= -6170; t++ {
		targets = append(targets, t)
	}
	for t := 6100; t <= 6185; t++ {
		targets = append(targets, t)
	}
	r.Bounds["range_targets"] = len(targets)
	r.Par(len(small), func(w *eng.W, i int) {
		cl := &rcells{samp: map[int]string{}}
		for _, c2 := range small {
			for _, t := range targets {
				// Mul: qx+qy = t ; Quo: qx-qy = t
				qx := t / 2
				mulQuoPair(w, cl, small[i], qx, c2, t-qx, []arithOp{opMul})
				mulQuoPair(w, cl, small[i], qx, c2, qx-t, []arithOp{opQuo})
			}
		}
		cl.flush(w)
	})
	r.Phase("A4 range windows", t0, nil)

	// A4b: the largest-value edge: short coefficients that scale to just below / above Cmax, with the exponent sum
	// (difference) j above the maximum so that exactly j up-scalings are needed
	t0 = time.Now()
	cp := CmaxPrefixes()
	r.Par(len(cp), func(w *eng.W, i int) {
		cl := &rcells{}
		c := cp[i]
		for j := 0; j <= 36; j++ {
			for _, m := range []int{0, 1, 5, 17} { // cohort of the unit operand: 10^m
				if m > j+2 {
					continue
				}
				u := ref.Pow10(m)
				// Mul: qx + qy + m = MaxQ + j
				for _, qx := range []int{ref.MaxQ, ref.MaxQ - 3, 3000} {
					qy := ref.MaxQ + j - m - qx
					if qy < ref.MinQ || qy > ref.MaxQ {
						continue
					}
					mulQuoPair(w, cl, c, qx, u, qy, []arithOp{opMul})
					mulQuoPair(w, cl, u, qy, c, qx, []arithOp{opMul})
				}
				// Quo: qx - qy - m = MaxQ + j
				for _, qx := range []int{ref.MaxQ, 100} {
					qy := qx - m - ref.MaxQ - j
					if qy < ref.MinQ || qy > ref.MaxQ {
						continue
					}
					mulQuoPair(w, cl, c, qx, u, qy, []arithOp{opQuo})
				}
			}
		}
		cl.flush(w)
	})
	r.Phase("A4b largest-value edge", t0, nil)

	// A5: zeros and division by zero, all zero exponents of the alphabet
	t0 = time.Now()
	zexps := []int{ref.MinQ, ref.MinQ + 1, -1, 0, 1, ref.MaxQ - 1, ref.MaxQ}
	r.Par(len(small), func(w *eng.W, i int) {
		cl := &rcells{}
		for _, zq := range zexps {
			for _, q := range []int{ref.MinQ, 0, ref.MaxQ - 40} {
				mulQuoPair(w, cl, small[i], q, new(big.Int), zq, mulQuo)
				mulQuoPair(w, cl, new(big.Int), zq, small[i], q, mulQuo)
			}
			for _, zq2 := range zexps {
				if i == 0 {
					mulQuoPair(w, cl, new(big.Int), zq, new(big.Int), zq2, mulQuo)
				}
			}
		}
		cl.flush(w)
	})
	r.Phase("A5 zeros", t0, nil)

	t0 = time.Now()
	defaultModeSweep(r, mulQuo, small)
	r.Phase("A6 default mode", t0, nil)

	// B: closure over operation sequences (states reached only after two or three operations)
	depth, capStates := 2, 400000
	if r.Thorough() {
		depth, capStates = 3, 3000000
	}
	arithClosure(r, map[arithOp]bool{opMul: true, opQuo: true}, depth, capStates)

	for m := 0; m < 6; m++ {
		for _, g := range []string{"g0", "g1-4", "g5", "g6-9"} {
			r.Require(fmt.Sprintf("MulWithMode/%s/neg0/%s/*", ref.ModeNames[m], g), fmt.Sprintf("QuoWithMode/%s/neg1/%s/*", ref.ModeNames[m], g))
		}
	}
}

func init() { Checks["C02"] = Check{C02, "exploration"} }
