package props

import (
	"fmt"
	"math"
	"math/big"
	"time"

	dec "github.com/woodsbury/decimal128"

	"verifmc/eng"
	"verifmc/ref"
)

// truncInt returns trunc(v) as a big.Int for finite v.
func truncInt(v ref.Val) *big.Int {
	z := new(big.Int)
	if v.Q >= 0 {
		z.Mul(v.C, ref.Pow10(v.Q))
	} else if -v.Q > 40 {
		return z
	} else {
		z.Quo(v.C, ref.Pow10(-v.Q))
	}
	if v.Neg {
		z.Neg(z)
	}
	return z
}

var (
	bigMinI64 = big.NewInt(math.MinInt64)
	bigMaxI64 = big.NewInt(math.MaxInt64)
	bigMinI32 = big.NewInt(math.MinInt32)
	bigMaxI32 = big.NewInt(math.MaxInt32)
	bigMaxU64 = new(big.Int).SetUint64(math.MaxUint64)
	bigMaxU32 = big.NewInt(math.MaxUint32)
)

func satStr(t *big.Int, lo, hi *big.Int) string {
	if t.Cmp(lo) < 0 {
		return lo.String() + " false"
	}
	if t.Cmp(hi) > 0 {
		return hi.String() + " false"
	}
	return t.String() + " true"
}

func checkToInts(w *eng.W, b ref.Bits, v ref.Val) {
	d := D(b)
	w.Set1("Int/Int64/Int32/Uint64/Uint32", "", b)
	if v.Class == ref.NaN {
		return
	}
	var t *big.Int
	if v.Class == ref.Inf {
		// saturate; Int panics (documented), not called here
		t = new(big.Int).Lsh(big.NewInt(1), 200)
		if v.Neg {
			t.Neg(t)
		}
	} else {
		t = truncInt(v)
		gi := d.Int(nil)
		w.Eval()
		if gi.Cmp(t) != 0 {
			w.R.Fail(eng.Case{Op: "Int", Args: []string{b.Hex()}, Got: trunc(gi.String()), Want: trunc(t.String()), Note: v.String()})
		}
		// with a caller-provided receiver holding garbage
		pre := big.NewInt(-987654321)
		if g2 := d.Int(pre); g2 != pre || g2.Cmp(t) != 0 {
			w.R.Fail(eng.Case{Op: "Int(reuse)", Args: []string{b.Hex()}, Got: trunc(g2.String()), Want: trunc(t.String()), Note: v.String()})
		}
	}
	zero := new(big.Int)
	i64, ok64 := d.Int64()
	i32, ok32 := d.Int32()
	u64, oku64 := d.Uint64()
	u32, oku32 := d.Uint32()
	w.EvalN(4)
	for _, c := range []struct {
		n, got, want string
	}{
		{"Int64", fmt.Sprint(i64, " ", ok64), satStr(t, bigMinI64, bigMaxI64)},
		{"Int32", fmt.Sprint(i32, " ", ok32), satStr(t, bigMinI32, bigMaxI32)},
		{"Uint64", fmt.Sprint(u64, " ", oku64), satStr(t, zero, bigMaxU64)},
		{"Uint32", fmt.Sprint(u32, " ", oku32), satStr(t, zero, bigMaxU32)},
	} {
		if c.got != c.want {
			w.R.Fail(eng.Case{Op: c.n, Args: []string{b.Hex()}, Got: c.got, Want: c.want, Note: v.String()})
		}
	}
	cell := "in-range"
	switch {
	case v.Class == ref.Inf:
		cell = "inf"
	case t.Cmp(bigMinI64) < 0 || t.Cmp(bigMaxU64) > 0:
		cell = "beyond-64bit"
	case t.Sign() == 0 && v.C.Sign() != 0:
		cell = "fraction-truncates-to-0"
		if v.Neg {
			cell += "/negative"
		}
	case v.Q < 0:
		cell = "has-fraction"
	}
	w.Cell("ToInt/"+cell, cell != "in-range")
}

func trunc(s string) string {
	if len(s) > 120 {
		return s[:60] + "…" + s[len(s)-40:]
	}
	return s
}

func checkFromInt(w *eng.W, i *big.Int, label string) {
	w.SetS("FromInt", "", label)
	snap := new(big.Int).Set(i)
	gb := B(dec.FromInt(i))
	w.Eval()
	if i.Cmp(snap) != 0 {
		w.R.Fail(eng.Case{Op: "FromInt", Args: []string{label}, Got: "argument modified", Want: "argument untouched"})
	}
	var want ref.Val
	var info ref.RInfo
	if i.Sign() == 0 {
		want, info = ref.Zero(false), ref.RInfo{Exact: true, Event: "zero"}
	} else {
		want, info = ref.RoundInt(i, 0, ref.NearestEven)
	}
	w.Cell("FromInt/"+evCell(info), !info.Exact)
	if !Same(gb, want) {
		w.R.Fail(eng.Case{Op: "FromInt", Args: []string{label}, Got: ref.Decode(gb).String(), Want: want.String()})
	}
}

// checkFromRat: correctly rounded when both have <= 34 digits; within 2e-33 relative otherwise.
func checkFromRat(w *eng.W, num, den *big.Int, label string) {
	w.SetS("FromRat", "", label)
	r := new(big.Rat).SetFrac(num, den)
	if r.Sign() == 0 {
		return
	}
	rs := new(big.Rat).Set(r)
	d := dec.FromRat(r)
	w.Eval()
	if r.Cmp(rs) != 0 {
		w.R.Fail(eng.Case{Op: "FromRat", Args: []string{label}, Got: "argument modified", Want: "argument untouched"})
	}
	gb := B(d)
	gv := ref.Decode(gb)
	n, dn := r.Num(), r.Denom()
	neg := n.Sign() < 0
	an := new(big.Int).Abs(n)
	if ref.NumDigits(an) <= 34 && ref.NumDigits(dn) <= 34 {
		want, info := ref.Round(neg, an, dn, 0, ref.NearestEven)
		w.Cell("FromRat/correctly-rounded/"+evCell(info), true)
		if !Same(gb, want) {
			w.R.Fail(eng.Case{Op: "FromRat", Args: []string{label}, Got: gv.String(), Want: want.String() + " (correctly rounded)"})
		}
		return
	}
	want, _ := ref.Round(neg, an, dn, 0, ref.NearestEven)
	if want.Class == ref.Inf || gv.Class != ref.Fin {
		w.Cell("FromRat/overflow", true)
		if !(want.Class == ref.Inf && gv.Class == ref.Inf && gv.Neg == neg) {
			// within tolerance of the largest finite value is also acceptable
			if gv.Class == ref.Fin && want.Class == ref.Inf {
				maxV := ref.Val{Class: ref.Fin, Neg: neg, C: ref.Cmax, Q: ref.MaxQ}
				if ref.SameValue(gv, maxV) {
					return
				}
			}
			w.R.Fail(eng.Case{Op: "FromRat", Args: []string{label}, Got: gv.String(), Want: want.String()})
		}
		return
	}
	ar := new(big.Rat).Abs(r)
	diff := new(big.Rat).Sub(gv.Rat(), r)
	diff.Abs(diff)
	bound := new(big.Rat).Mul(ar, new(big.Rat).SetFrac(big.NewInt(2), ref.Pow10(33)))
	cell := "FromRat/within-2e-33"
	if ar.Cmp(new(big.Rat).SetFrac(big.NewInt(1), ref.Pow10(6143))) < 0 {
		bound.Add(bound, new(big.Rat).SetFrac(big.NewInt(1), ref.Pow10(6176)))
		cell = "FromRat/subnormal-range"
	}
	w.Cell(cell, true)
	if diff.Cmp(bound) > 0 || (gv.C.Sign() != 0 && gv.Neg != neg) {
		w.R.Fail(eng.Case{Op: "FromRat", Args: []string{label}, Got: gv.String(), Want: "within 2e-33 relative of the exact quotient; correctly rounded value is " + want.String()})
	}
}

func checkRat(w *eng.W, b ref.Bits, v ref.Val) {
	d := D(b)
	w.Set1("Rat", "", b)
	got := d.Rat(nil)
	w.Eval()
	want := v.Rat()
	if got.Cmp(want) != 0 {
		w.R.Fail(eng.Case{Op: "Rat", Args: []string{b.Hex()}, Got: trunc(got.String()), Want: trunc(want.String())})
		return
	}
	pre := big.NewRat(-22, 7)
	if g2 := d.Rat(pre); g2 != pre || g2.Cmp(want) != 0 {
		w.R.Fail(eng.Case{Op: "Rat(reuse)", Args: []string{b.Hex()}, Got: trunc(g2.String()), Want: trunc(want.String())})
	}
	back := dec.FromRat(got)
	w.Eval()
	bb := B(back)
	ok := Same(bb, v)
	if v.C.Sign() == 0 {
		ok = ref.Decode(bb).IsZero() // a rational has no signed zero: Equal is what the property demands
	}
	w.Cell("Rat/roundtrip", true)
	if !ok {
		w.R.Fail(eng.Case{Op: "FromRat(Rat)", Args: []string{b.Hex()}, Got: ref.Decode(bb).String(), Want: v.String()})
	}
}

func init() {
	Replayers["FromRat(Rat)"] = func(c eng.Case) (string, string, error) {
		b, err := ref.ParseHex(c.Args[0])
		if err != nil {
			return "", "", err
		}
		v := ref.Decode(b)
		g := V(dec.FromRat(D(b).Rat(nil)))
		if ref.SameValue(g, v) || (v.IsZero() && g.IsZero()) {
			return v.String(), v.String(), nil
		}
		return g.String(), v.String(), nil
	}
	for _, n := range []string{"Int64", "Int32", "Uint64", "Uint32"} {
		name := n
		Replayers[name] = func(c eng.Case) (string, string, error) {
			b, err := ref.ParseHex(c.Args[0])
			if err != nil {
				return "", "", err
			}
			d := D(b)
			var got string
			switch name {
			case "Int64":
				x, ok := d.Int64()
				got = fmt.Sprint(x, " ", ok)
			case "Int32":
				x, ok := d.Int32()
				got = fmt.Sprint(x, " ", ok)
			case "Uint64":
				x, ok := d.Uint64()
				got = fmt.Sprint(x, " ", ok)
			default:
				x, ok := d.Uint32()
				got = fmt.Sprint(x, " ", ok)
			}
			return got, c.Want, nil
		}
	}
	Checks["C10"] = Check{C10, "exploration"}
}

func C10(r *eng.Run) {
	r.Rule = "FromInt64/32/Uint64/32: type bounds +-{0,1,2}, powers of two and ten +-1, all coefficient shapes in range (exact by independent decoding); " +
		"FromInt: shapes K x 10^k for every k in 0..6200 and K*10^k+-1 (128/256-bit and big reduction paths, ties, overflow); " +
		"Int/Int64/Int32/Uint64/Uint32: (type bound + {-2..2}) with fractions {0,.5,.9..9} in every cohort that fits, both signs, shapes at exponents -40..40 and the range ends; oracle trunc, ok <=> fits, saturation; " +
		"Rat exact and FromRat(d.Rat()) == d for shapes x exponents; FromRat(a/b) correctly rounded for a,b <= 34 digits (K x K), within 2e-33 otherwise (operands up to ~20k bits). " +
		"Non-trivial = anything that rounds, saturates or truncates a fraction."
	r.Assumptions = []string{"binary codec is the identity on bits (checked at start; decided by C12)", "judged under DefaultRoundingMode = ToNearestEven only",
		"FromRat tolerance is relaxed by one subnormal quantum below 1e-6143"}
	if !CodecSanity(r) {
		return
	}
	shapes := Shapes(true)
	t0 := time.Now()
	// machine integers
	r.Seq(func(w *eng.W) {
		var vals []*big.Int
		for k := 0; k <= 64; k++ {
			p := pow2(k)
			for d := int64(-2); d <= 2; d++ {
				vals = append(vals, new(big.Int).Add(p, big.NewInt(d)), new(big.Int).Neg(new(big.Int).Add(p, big.NewInt(d))))
			}
		}
		for k := 0; k <= 19; k++ {
			for d := int64(-1); d <= 1; d++ {
				z := new(big.Int).Add(ref.Pow10(k), big.NewInt(d))
				vals = append(vals, z, new(big.Int).Neg(z))
			}
		}
		for _, c := range shapes {
			if c.BitLen() <= 64 {
				vals = append(vals, c, new(big.Int).Neg(c))
			}
		}
		vals = append(vals, new(big.Int))
		for _, z := range vals {
			chk := func(name string, g dec.Decimal) {
				w.Eval()
				want := ref.Val{Class: ref.Fin, Neg: z.Sign() < 0, C: new(big.Int).Abs(z), Q: 0}
				if !Same(B(g), want) {
					w.R.Fail(eng.Case{Op: name, Args: []string{z.String()}, Got: V(g).String(), Want: want.String()})
				}
			}
			w.SetS("FromInt64/32/Uint64/32", "", z.String())
			if z.IsInt64() {
				chk("FromInt64", dec.FromInt64(z.Int64()))
				if z.Int64() >= math.MinInt32 && z.Int64() <= math.MaxInt32 {
					chk("FromInt32", dec.FromInt32(int32(z.Int64())))
				}
			}
			if z.IsUint64() {
				chk("FromUint64", dec.FromUint64(z.Uint64()))
				if z.Uint64() <= math.MaxUint32 {
					chk("FromUint32", dec.FromUint32(uint32(z.Uint64())))
				}
			}
			w.Cell("FromMachineInt", true)
		}
	})
	r.Phase("machine integers", t0, nil)

	t0 = time.Now()
	r.Bounds["shapes"] = len(shapes)
	r.Par(len(shapes), func(w *eng.W, i int) {
		K := shapes[i]
		step := 1
		if !r.Thorough() {
			step = 7
		}
		for k := 0; k <= 6200; k++ {
			if k > 80 && k < 6090 && (k+i)%step != 0 {
				continue
			}
			z := new(big.Int).Mul(K, ref.Pow10(k))
			checkFromInt(w, z, fmt.Sprintf("%v*10^%d", K, k))
			checkFromInt(w, new(big.Int).Neg(z), fmt.Sprintf("-%v*10^%d", K, k))
			if k > 0 && k < 200 {
				checkFromInt(w, new(big.Int).Add(z, big.NewInt(1)), fmt.Sprintf("%v*10^%d+1", K, k))
				checkFromInt(w, new(big.Int).Sub(z, big.NewInt(1)), fmt.Sprintf("%v*10^%d-1", K, k))
				h := new(big.Int).Mul(big.NewInt(5), ref.Pow10(k-1))
				zh := new(big.Int).Add(z, h)
				checkFromInt(w, zh, fmt.Sprintf("%v*10^%d+5*10^%d", K, k, k-1))
				checkFromInt(w, new(big.Int).Neg(zh), fmt.Sprintf("-(%v*10^%d+5*10^%d)", K, k, k-1))
				// dropped digits 4999.., 49999.., 9999.. (with and without something after them), both signs
				for _, tl := range []int64{4999, 49999, 9999, 99999, 5001, 50001} {
					tn := ref.NumDigits(big.NewInt(tl))
					if k < tn {
						continue
					}
					for _, extra := range []int64{0, 7} {
						if k == tn && extra != 0 {
							continue
						}
						zz := new(big.Int).Add(z, new(big.Int).Mul(big.NewInt(tl), ref.Pow10(k-tn)))
						if extra != 0 {
							zz.Add(zz, big.NewInt(extra))
						}
						checkFromInt(w, zz, fmt.Sprintf("%v*10^%d+%d*10^%d+%d", K, k, tl, k-tn, extra))
						checkFromInt(w, new(big.Int).Neg(zz), fmt.Sprintf("-(%v*10^%d+%d*10^%d+%d)", K, k, tl, k-tn, extra))
					}
				}
				// tie broken by a single sticky digit at every chunk-relevant position below the guard digit
				for _, j := range []int{0, 1, 17, 18, 19, 35, 36, 37, 53, 54, 55, k - 3, k - 2} {
					if j >= 0 && j < k-1 {
						checkFromInt(w, new(big.Int).Add(zh, ref.Pow10(j)), fmt.Sprintf("%v*10^%d+5*10^%d+10^%d", K, k, k-1, j))
						checkFromInt(w, new(big.Int).Sub(zh, ref.Pow10(j)), fmt.Sprintf("%v*10^%d+5*10^%d-10^%d", K, k, k-1, j))
						checkFromInt(w, new(big.Int).Neg(new(big.Int).Add(zh, ref.Pow10(j))), fmt.Sprintf("-(%v*10^%d+5*10^%d+10^%d)", K, k, k-1, j))
						checkFromInt(w, new(big.Int).Neg(new(big.Int).Sub(zh, ref.Pow10(j))), fmt.Sprintf("-(%v*10^%d+5*10^%d-10^%d)", K, k, k-1, j))
					}
				}
			}
		}
	})
	r.Phase("FromInt", t0, nil)

	t0 = time.Now()
	var targets []*big.Int
	for _, bnd := range []*big.Int{bigMinI64, bigMaxI64, bigMinI32, bigMaxI32, bigMaxU64, bigMaxU32, new(big.Int)} {
		for d := int64(-2); d <= 2; d++ {
			targets = append(targets, new(big.Int).Add(bnd, big.NewInt(d)))
		}
	}
	fracs := []string{"", "5", "9", "99999999999999", "1", "49", "50"}
	var toInt []ref.Bits
	for _, t := range targets {
		at := new(big.Int).Abs(t)
		for _, fr := range fracs {
			c := new(big.Int).Set(at)
			q := 0
			if fr != "" {
				c.Mul(c, ref.Pow10(len(fr))).Add(c, bi(fr))
				q = -len(fr)
			}
			cs, qs := Cohort(c, q)
			if c.Sign() == 0 {
				cs, qs = []*big.Int{c, c, c}, []int{0, -3, 40}
			}
			for k := range cs {
				toInt = append(toInt, MkBits(false, cs[k], qs[k]), MkBits(true, cs[k], qs[k]))
			}
		}
	}
	r.Bounds["int_boundary_operands"] = len(toInt)
	r.Par(len(toInt), func(w *eng.W, i int) { checkToInts(w, toInt[i], ref.Decode(toInt[i])) })
	var iexps []int
	for q := -45; q <= 45; q++ {
		iexps = append(iexps, q)
	}
	iexps = append(iexps, ref.MinQ, ref.MinQ+1, -100, 100, 1000, ref.MaxQ-1, ref.MaxQ)
	r.Par(len(shapes), func(w *eng.W, i int) {
		for _, q := range iexps {
			for s := 0; s < 2; s++ {
				b := MkBits(s == 1, shapes[i], q)
				checkToInts(w, b, ref.Decode(b))
			}
		}
	})
	r.Seq(func(w *eng.W) {
		for _, b := range specialOperands() {
			checkToInts(w, b, ref.Decode(b))
		}
	})
	r.Phase("Int conversions", t0, nil)

	t0 = time.Now()
	var rexps []int
	for q := ref.MinQ; q <= ref.MaxQ; q++ {
		if q < ref.MinQ+40 || q > ref.MaxQ-40 || (q > -45 && q < 45) || q%211 == 0 || (r.Thorough() && q%17 == 0) {
			rexps = append(rexps, q)
		}
	}
	small := SmallShapes()
	r.Bounds["rat_exponents"] = len(rexps)
	r.Par(len(rexps), func(w *eng.W, k int) {
		q := rexps[k]
		set := small
		if q > -45 && q < 45 {
			set = shapes
		}
		for _, c := range set {
			for s := 0; s < 2; s++ {
				b := MkBits(s == 1, c, q)
				checkRat(w, b, ref.Decode(b))
			}
		}
	})
	r.Seq(func(w *eng.W) {
		for _, q := range []int{ref.MinQ, -1, 0, 5, ref.MaxQ} {
			for s := 0; s < 2; s++ {
				b := MkBits(s == 1, new(big.Int), q)
				checkRat(w, b, ref.Decode(b))
			}
		}
	})
	r.Phase("Rat round trip", t0, nil)

	// R: values reached by operation sequences
	reachedPhase(r, "R values reached by operation sequences", reachedAll(r), func(w *eng.W, b ref.Bits, v ref.Val) {
		checkToInts(w, b, v)
		checkRat(w, b, v)
	})

	t0 = time.Now()
	r.Par(len(shapes), func(w *eng.W, i int) {
		a := shapes[i]
		for _, b := range shapes {
			checkFromRat(w, a, b, fmt.Sprintf("%v/%v", a, b))
			checkFromRat(w, new(big.Int).Neg(a), b, fmt.Sprintf("-%v/%v", a, b))
		}
	})
	// big operands
	type rr struct {
		n, d *big.Int
		l    string
	}
	var bigs []rr
	for _, a := range small {
		for _, b := range small {
			for _, ka := range []int{0, 40, 300, 6000, 6150} {
				for _, kb := range []int{0, 40, 300, 6000, 6150} {
					n := new(big.Int).Add(new(big.Int).Mul(a, ref.Pow10(ka)), big.NewInt(1))
					d := new(big.Int).Add(new(big.Int).Mul(b, ref.Pow10(kb)), big.NewInt(3))
					bigs = append(bigs, rr{n, d, fmt.Sprintf("(%v*10^%d+1)/(%v*10^%d+3)", a, ka, b, kb)})
				}
			}
		}
	}
	if !r.Thorough() {
		var sub []rr
		for i, x := range bigs {
			if i%9 == 0 {
				sub = append(sub, x)
			}
		}
		bigs = sub
	}
	r.Bounds["big_rationals"] = len(bigs)
	r.Par(len(bigs), func(w *eng.W, i int) { checkFromRat(w, bigs[i].n, bigs[i].d, bigs[i].l) })
	r.Phase("FromRat", t0, nil)
	r.Require("FromInt/exact", "FromInt/overflow", "FromInt/rounded/g5", "ToInt/beyond-64bit", "ToInt/fraction-truncates-to-0/negative", "ToInt/has-fraction", "ToInt/inf", "Rat/roundtrip", "FromRat/correctly-rounded/*", "FromRat/within-2e-33")
}
