package props

import (
	"fmt"
	"math"
	"math/big"
	"time"

	dec "github.com/woodsbury/decimal128"

	"verifmc/eng"
	"verifmc/ref"
)

func clampInt(x, lo, hi int) int {
	if x < lo {
		return lo
	}
	if x > hi {
		return hi
	}
	return x
}

func newWant(sig int64, exp int) (ref.Val, ref.RInfo) {
	if sig == 0 {
		return ref.Zero(false), ref.RInfo{Exact: true, Event: "zero"}
	}
	c := big.NewInt(sig)
	neg := sig < 0
	c.Abs(c)
	return ref.Round(neg, c, big.NewInt(1), clampInt(exp, -13000, 13000), ref.NearestEven)
}

func ldexpWant(v ref.Val, exp int) (ref.Val, ref.RInfo) {
	if v.Class != ref.Fin || v.C.Sign() == 0 {
		return v, ref.RInfo{Exact: true, Event: "zero"}
	}
	return ref.Round(v.Neg, v.C, big.NewInt(1), v.Q+clampInt(exp, -13000, 13000), ref.NearestEven)
}

func evCell(info ref.RInfo) string {
	if info.Event != "" {
		if !info.Exact && info.Event == "subnormal" {
			return info.Event + "/" + guardNames[guardClass(info.Guard)]
		}
		return info.Event
	}
	if info.Exact {
		return "exact"
	}
	return "rounded/" + guardNames[guardClass(info.Guard)]
}

func checkNew(w *eng.W, sig int64, exp int) {
	want, info := newWant(sig, exp)
	w.SetS("New", "", fmt.Sprintf("%d,%d", sig, exp))
	gb := B(dec.New(sig, exp))
	w.Eval()
	w.Cell("New/"+evCell(info), !info.Exact || info.Event == "subnormal")
	if !Same(gb, want) {
		w.R.Fail(eng.Case{Op: "New", Args: []string{fmt.Sprint(sig), itoa(exp)}, Got: ref.Decode(gb).String(), Want: want.String()})
	}
}

func checkLdexp(w *eng.W, b ref.Bits, v ref.Val, exp int) {
	want, info := ldexpWant(v, exp)
	w.Set1I("Ldexp", "", b, int64(exp))
	gb := B(dec.Ldexp(D(b), exp))
	w.Eval()
	w.Cell("Ldexp/"+evCell(info), !info.Exact || info.Event == "subnormal")
	ok := Same(gb, want)
	if v.Class == ref.NaN {
		ok = ref.Decode(gb).Class == ref.NaN
	}
	if !ok {
		w.R.Fail(eng.Case{Op: "Ldexp", Args: []string{b.Hex(), itoa(exp)}, Got: ref.Decode(gb).String(), Want: want.String(), Note: "frac=" + v.String()})
	}
}

func checkFrexp(w *eng.W, b ref.Bits, v ref.Val) {
	w.Set1("Frexp", "", b)
	d := D(b)
	f, e := dec.Frexp(d)
	fb := B(f)
	w.Eval()
	fv := ref.Decode(fb)
	fail := func(want string) {
		w.R.Fail(eng.Case{Op: "Frexp", Args: []string{b.Hex()}, Got: fmt.Sprintf("frac=%s e=%d", fv, e), Want: want, Note: "d=" + v.String()})
	}
	if v.Class != ref.Fin || v.C.Sign() == 0 {
		w.Cell("Frexp/special-or-zero", true)
		if fb != b || e != 0 {
			fail("d unchanged, e=0")
		}
		return
	}
	w.Cell(fmt.Sprintf("Frexp/finite/len%d", ref.NumDigits(v.C)), true)
	if fv.Class != ref.Fin || fv.Neg != v.Neg {
		fail("finite fraction with the sign of d")
		return
	}
	// 0.1 <= |frac| < 1
	tenth := ref.Val{Class: ref.Fin, C: big.NewInt(1), Q: -1}
	one := ref.Val{Class: ref.Fin, C: big.NewInt(1), Q: 0}
	if ref.CmpMag(fv, tenth) < 0 || ref.CmpMag(fv, one) >= 0 {
		fail("0.1 <= |frac| < 1")
		return
	}
	// frac * 10^e == d exactly
	if !ref.SameValue(ref.Val{Class: ref.Fin, Neg: fv.Neg, C: fv.C, Q: fv.Q + e}, v) {
		fail("frac*10^e == d exactly")
		return
	}
	if gb := B(dec.Ldexp(f, e)); !Same(gb, v) {
		w.R.Fail(eng.Case{Op: "Ldexp(Frexp)", Args: []string{b.Hex()}, Got: ref.Decode(gb).String(), Want: v.String()})
	}
}

func init() {
	Replayers["New"] = func(c eng.Case) (string, string, error) {
		var sig int64
		var exp int
		fmt.Sscan(c.Args[0], &sig)
		fmt.Sscan(c.Args[1], &exp)
		want, _ := newWant(sig, exp)
		got := V(dec.New(sig, exp))
		if ref.SameValue(got, want) {
			return want.String(), want.String(), nil
		}
		return got.String(), want.String(), nil
	}
	Replayers["Ldexp"] = func(c eng.Case) (string, string, error) {
		b, err := ref.ParseHex(c.Args[0])
		var exp int
		fmt.Sscan(c.Args[1], &exp)
		if err != nil {
			return "", "", err
		}
		want, _ := ldexpWant(ref.Decode(b), exp)
		got := V(dec.Ldexp(D(b), exp))
		if ref.SameValue(got, want) {
			return want.String(), want.String(), nil
		}
		return got.String(), want.String(), nil
	}
	Checks["C11"] = Check{C11, "exploration"}
}

func int64Shapes() []int64 {
	var out []int64
	seen := map[int64]bool{}
	add := func(v int64) {
		if !seen[v] {
			seen[v] = true
			out = append(out, v)
		}
	}
	for _, c := range Shapes(true) {
		if c.IsInt64() {
			add(c.Int64())
			add(-c.Int64())
		}
	}
	for _, v := range []int64{0, math.MaxInt64, math.MinInt64, math.MinInt64 + 1, math.MaxInt64 - 1, 1 << 62, -(1 << 62), 5, -5, 15, 25, 35, 45, 55, 150, 250, 5000000000000000000, 9223372036854775805} {
		add(v)
	}
	return out
}

var expExtremes = []int{math.MinInt, math.MinInt + 1, -1 << 31, -1<<31 - 1, -65536, -65537, -32769, -32768, -32767, 32767, 32768, 65535, 65536, 1<<31 - 1, 1 << 31, math.MaxInt - 1, math.MaxInt}

func C11(r *eng.Run) {
	r.Rule = "New: int64 shapes (all coefficient shapes that fit int64, both signs, MinInt64/MaxInt64) x every exponent in -7000..7000 plus int extremes; " +
		"Ldexp: coefficient shapes at exponent positions x every shift that lands the result in windows around 1e-6176 and 1e6111 and mid-range, every shift in -12400..12400 for a value subset, int extremes; " +
		"Frexp: shapes x exponents (every exponent for a subset) with 0.1<=|frac|<1, frac*10^e==d exactly and Ldexp(Frexp(d))==d; specials and zeros unchanged. " +
		"Oracle: exact sig*10^exp rounded to nearest-even with tiny/overflow rules, under the default rounding mode. Non-trivial = inexact, subnormal, tiny or overflowing results."
	r.Assumptions = []string{"binary codec is the identity on bits (checked at start; decided by C12)", "judged under DefaultRoundingMode = ToNearestEven only (the property names nearest-even)"}
	if !CodecSanity(r) {
		return
	}
	t0 := time.Now()
	sigs := int64Shapes()
	r.Bounds["int64_shapes"] = len(sigs)
	r.Par(len(sigs), func(w *eng.W, i int) {
		for e := -7000; e <= 7000; e++ {
			checkNew(w, sigs[i], e)
		}
		for _, e := range expExtremes {
			checkNew(w, sigs[i], e)
		}
	})
	r.Phase("New", t0, nil)

	t0 = time.Now()
	shapes := dedupe(append(Shapes(true), CmaxPrefixes()...))
	pos := []int{ref.MinQ, ref.MinQ + 1, ref.MinQ + 17, ref.MinQ + 34, ref.MinQ + 35, -3000, -40, -1, 0, 1, 33, 3000, ref.MaxQ - 35, ref.MaxQ - 34, ref.MaxQ - 1, ref.MaxQ}
	r.Bounds["shapes"] = len(shapes)
	r.Bounds["ldexp_positions"] = len(pos)
	r.Par(len(shapes), func(w *eng.W, i int) {
		c := shapes[i]
		for _, q := range pos {
			for s := 0; s < 2; s++ {
				b := MkBits(s == 1, c, q)
				v := ref.Decode(b)
				var targets []int
				for t := ref.MinQ - 45; t <= ref.MinQ+5; t++ {
					targets = append(targets, t)
				}
				for t := ref.MaxQ - 40; t <= ref.MaxQ+45; t++ {
					targets = append(targets, t)
				}
				targets = append(targets, 0, -1, 1)
				for _, t := range targets {
					checkLdexp(w, b, v, t-q)
				}
				for _, e := range expExtremes {
					checkLdexp(w, b, v, e)
				}
			}
		}
	})
	sub := SmallShapes()
	r.Par(len(sub), func(w *eng.W, i int) {
		for _, q := range []int{ref.MinQ, 0, ref.MaxQ} {
			b := MkBits(i%2 == 1, sub[i], q)
			v := ref.Decode(b)
			for e := -12400; e <= 12400; e++ {
				checkLdexp(w, b, v, e)
			}
		}
	})
	r.Seq(func(w *eng.W) {
		for _, b := range specialOperands() {
			v := ref.Decode(b)
			if v.Class == ref.Fin && v.C.Sign() != 0 {
				continue
			}
			for _, e := range append([]int{-5, 0, 7, 7000, -7000}, expExtremes...) {
				checkLdexp(w, b, v, e)
			}
			checkFrexp(w, b, v)
		}
	})
	r.Phase("Ldexp", t0, nil)

	t0 = time.Now()
	r.Par(len(shapes), func(w *eng.W, i int) {
		c := shapes[i]
		step := 37
		if r.Thorough() || i%16 == 0 {
			step = 1
		}
		for q := ref.MinQ; q <= ref.MaxQ; q += step {
			for s := 0; s < 2; s++ {
				b := MkBits(s == 1, c, q)
				checkFrexp(w, b, ref.Decode(b))
			}
		}
		for _, q := range []int{ref.MinQ, ref.MinQ + 1, -1, 0, 1, ref.MaxQ - 1, ref.MaxQ} {
			for s := 0; s < 2; s++ {
				b := MkBits(s == 1, c, q)
				checkFrexp(w, b, ref.Decode(b))
			}
		}
	})
	r.Phase("Frexp", t0, nil)

	// R: values reached by operation sequences
	reachedPhase(r, "R values reached by operation sequences", reachedAll(r), func(w *eng.W, b ref.Bits, v ref.Val) {
		checkFrexp(w, b, v)
		L := ref.NumDigits(v.C)
		for _, e := range []int{0, 1, -1, 35, -35, ref.MinQ - v.Q, ref.MinQ - v.Q - L + 1, ref.MinQ - v.Q - L, ref.MinQ - v.Q - L - 1, ref.MaxQ - v.Q, ref.MaxQ - v.Q + 35 - L, ref.MaxQ - v.Q + 36 - L} {
			checkLdexp(w, b, v, e)
		}
	})
	r.Require("New/exact", "New/tiny0", "New/overflow", "New/subnormal", "New/subnormal/g5", "Ldexp/tiny0", "Ldexp/overflow", "Ldexp/subnormal", "Ldexp/subnormal/g5", "Ldexp/subnormal/g6-9", "Frexp/special-or-zero", "Frexp/finite/len35")
}
