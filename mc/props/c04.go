package props

import (
	"fmt"
	"math/big"
	"time"

	dec "github.com/woodsbury/decimal128"

	"verifmc/eng"
	"verifmc/ref"
)

func cmpCase(op string, xb, yb ref.Bits, got, want string) eng.Case {
	return eng.Case{Op: op, Args: []string{xb.Hex(), yb.Hex()}, Got: got, Want: want, Note: fmt.Sprintf("x=%s y=%s", ref.Decode(xb), ref.Decode(yb))}
}

func absVal(v ref.Val) ref.Val { v.Neg = false; return v }

// cmpObserve runs every comparison entry point on (x,y) and renders the observations as one string.
func cmpObserve(x, y dec.Decimal) string {
	c := x.Cmp(y)
	ca := x.CmpAbs(y)
	fl := func(c dec.CmpResult) string {
		s := ""
		for _, b := range []bool{c.Less(), c.Equal(), c.Greater(), c.LessOrEqual(), c.GreaterOrEqual()} {
			if b {
				s += "1"
			} else {
				s += "0"
			}
		}
		return s
	}
	mn, mx := V(dec.Min(x, y)), V(dec.Max(x, y))
	return fmt.Sprintf("Cmp=%s CmpAbs=%s Equal=%v Compare=%d Min=%s Max=%s", fl(c), fl(ca), x.Equal(y), dec.Compare(x, y), mmStr(mn), mmStr(mx))
}

func mmStr(v ref.Val) string {
	if v.Class == ref.NaN {
		return "NaN"
	}
	return v.String()
}

// cmpExpect renders the specified observations; Min/Max are given as canonical value strings
// compared by value below (so this function returns the parts separately).
type cmpWant struct {
	cmp, cmpAbs string
	equal       bool
	compare     int
	minNaN      bool
	min, max    ref.Val
}

func flagsOf(c int, nan bool) string {
	if nan {
		return "00000"
	}
	switch {
	case c < 0:
		return "10010"
	case c == 0:
		return "01011"
	}
	return "00101"
}

func cmpExpect(xv, yv ref.Val) cmpWant {
	var w cmpWant
	xn, yn := xv.Class == ref.NaN, yv.Class == ref.NaN
	if xn || yn {
		w.cmp, w.cmpAbs, w.equal, w.minNaN = "00000", "00000", false, true
		switch {
		case xn && yn:
			w.compare = 0
		case xn:
			w.compare = -1
		default:
			w.compare = 1
		}
		return w
	}
	c := ref.Cmp(xv, yv)
	w.cmp = flagsOf(c, false)
	w.cmpAbs = flagsOf(ref.Cmp(absVal(xv), absVal(yv)), false)
	w.equal = c == 0
	w.compare = c
	switch {
	case c < 0:
		w.min, w.max = xv, yv
	case c > 0:
		w.min, w.max = yv, xv
	default:
		w.min, w.max = xv, xv
		if xv.IsZero() {
			w.min = ref.Zero(xv.Neg || yv.Neg)
			w.max = ref.Zero(xv.Neg && yv.Neg)
		}
	}
	return w
}

func checkCmpPair(w *eng.W, xb, yb ref.Bits) {
	xv, yv := ref.Decode(xb), ref.Decode(yb)
	want := cmpExpect(xv, yv)
	x, y := D(xb), D(yb)
	w.Set2("Cmp", "", xb, yb)
	c := x.Cmp(y)
	ca := x.CmpAbs(y)
	fl := func(c dec.CmpResult) string {
		var s [5]byte
		for i, b := range [5]bool{c.Less(), c.Equal(), c.Greater(), c.LessOrEqual(), c.GreaterOrEqual()} {
			s[i] = '0'
			if b {
				s[i] = '1'
			}
		}
		return string(s[:])
	}
	w.EvalN(6)
	if g := fl(c); g != want.cmp {
		w.R.Fail(cmpCase("Cmp", xb, yb, g, want.cmp))
	} else if !want.minNaN && int(c) != want.compare {
		w.R.Fail(cmpCase("Cmp", xb, yb, fmt.Sprint("int value ", int(c)), fmt.Sprint("int value ", want.compare)))
	}
	if g := fl(ca); g != want.cmpAbs {
		w.R.Fail(cmpCase("CmpAbs", xb, yb, g, want.cmpAbs))
	}
	if g := x.Equal(y); g != want.equal {
		w.R.Fail(cmpCase("Equal", xb, yb, fmt.Sprint(g), fmt.Sprint(want.equal)))
	}
	if g := dec.Compare(x, y); g != want.compare {
		w.R.Fail(cmpCase("Compare", xb, yb, fmt.Sprint(g), fmt.Sprint(want.compare)))
	}
	mn, mx := B(dec.Min(x, y)), B(dec.Max(x, y))
	if want.minNaN {
		if ref.Decode(mn).Class != ref.NaN {
			w.R.Fail(cmpCase("Min", xb, yb, ref.Decode(mn).String(), "NaN"))
		}
		if ref.Decode(mx).Class != ref.NaN {
			w.R.Fail(cmpCase("Max", xb, yb, ref.Decode(mx).String(), "NaN"))
		}
	} else {
		if !Same(mn, want.min) {
			w.R.Fail(cmpCase("Min", xb, yb, ref.Decode(mn).String(), want.min.String()))
		}
		if !Same(mx, want.max) {
			w.R.Fail(cmpCase("Max", xb, yb, ref.Decode(mx).String(), want.max.String()))
		}
	}
}

func init() {
	rp := func(c eng.Case) (string, string, error) {
		xb, e1 := ref.ParseHex(c.Args[0])
		yb, e2 := ref.ParseHex(c.Args[1])
		if e1 != nil || e2 != nil {
			return "", "", fmt.Errorf("bad case")
		}
		xv, yv := ref.Decode(xb), ref.Decode(yb)
		w := cmpExpect(xv, yv)
		got := cmpObserve(D(xb), D(yb))
		mn, mx := V(dec.Min(D(xb), D(yb))), V(dec.Max(D(xb), D(yb)))
		ms, xs := "NaN", "NaN"
		if !w.minNaN {
			ms, xs = w.min.String(), w.max.String()
			if ref.SameValue(mn, w.min) {
				ms = mn.String()
			}
			if ref.SameValue(mx, w.max) {
				xs = mx.String()
			}
		}
		want := fmt.Sprintf("Cmp=%s CmpAbs=%s Equal=%v Compare=%d Min=%s Max=%s", w.cmp, w.cmpAbs, w.equal, w.compare, ms, xs)
		return got, want, nil
	}
	for _, n := range []string{"Cmp", "CmpAbs", "Equal", "Compare", "Min", "Max"} {
		Replayers[n] = rp
	}
	Checks["C04"] = Check{C04, "exploration"}
}

func C04(r *eng.Run) {
	r.Rule = "bounded-exhaustive pairs: coefficient shapes K x K x exponent gaps x 4 sign combinations (both argument orders arise in the product), every leading-digit prefix and word-threshold coefficient against a reduced alphabet, " +
		"arm-targeted near-equality (K at exponent q+g against K*10^g + delta at q for every gap g<=35 and delta in {0, +-1, +-10^j (j<g), 5*10^(g-1)}) at mid-range and both range ends, " +
		"special/zero operand table, predicates IsZero/Sign on every operand, and all triples of a 70-value set for transitivity; oracle = sign of the exact difference. " +
		"Cell = (family, exact order, relation of digit counts); non-trivial = operands with different exponents whose order is decided by digits, or equal values in different cohorts."
	r.Assumptions = []string{"binary codec is the identity on bits (checked at start; decided by C12)"}
	if !CodecSanity(r) {
		return
	}
	shapes := Shapes(r.Thorough())
	gaps := Gaps(r.Thorough())
	r.Bounds["coefficient_shapes"] = len(shapes)
	r.Bounds["gaps"] = len(gaps)
	t0 := time.Now()
	r.Par(len(shapes), func(w *eng.W, i int) {
		var cells [3][3]int64
		for _, c2 := range shapes {
			for _, g := range gaps {
				qx, qy, ok := place(g)
				if !ok {
					continue
				}
				for s := 0; s < 4; s++ {
					xb := MkBits(s&1 == 1, shapes[i], qx)
					yb := MkBits(s&2 == 2, c2, qy)
					checkCmpPair(w, xb, yb)
				}
				// cell: order of magnitudes x adjusted-exponent relation
				ax := qx + ref.NumDigits(shapes[i])
				ay := qy + ref.NumDigits(c2)
				cm := ref.CmpMag(ref.Val{C: shapes[i], Q: qx}, ref.Val{C: c2, Q: qy})
				cells[cm+1][sgnInt(ax-ay)+1] += 4
			}
		}
		for a := 0; a < 3; a++ {
			for b := 0; b < 3; b++ {
				if cells[a][b] > 0 {
					w.CellN(fmt.Sprintf("product/order%+d/adjexp%+d", a-1, b-1), cells[a][b], b == 1 || a == 1)
				}
			}
		}
	})
	r.Phase("A1 product", t0, nil)

	t0 = time.Now()
	nlead := 2
	if r.Thorough() {
		nlead = 3
	}
	leads := append(append(append(LeadSweep(nlead), WordShapes()...), LimitShapes()...), WeylShapes(48)...)
	sm := SmallShapes()
	r.Bounds["lead_prefix_digits"] = nlead
	r.Par(len(leads), func(w *eng.W, i int) {
		var n int64
		for _, c2 := range sm {
			for _, g := range gaps {
				qx, qy, ok := place(g)
				if !ok {
					continue
				}
				for s := 0; s < 4; s++ {
					xb := MkBits(s&1 == 1, leads[i], qx)
					yb := MkBits(s&2 == 2, c2, qy)
					checkCmpPair(w, xb, yb)
					checkCmpPair(w, yb, xb)
					n += 2
				}
			}
		}
		w.CellN("lead-sweep", n, true)
	})
	r.Phase("A1b lead sweep", t0, nil)

	t0 = time.Now()
	r.Par(len(shapes), func(w *eng.W, i int) {
		K := shapes[i]
		L := ref.NumDigits(K)
		var n, neq int64
		for g := 0; g+L <= 35; g++ {
			big10g := new(big.Int).Mul(K, ref.Pow10(g))
			var deltas []*big.Int
			deltas = append(deltas, big.NewInt(0), big.NewInt(1), big.NewInt(-1))
			for j := 1; j < g; j++ {
				deltas = append(deltas, ref.Pow10(j), new(big.Int).Neg(ref.Pow10(j)))
			}
			if g >= 1 {
				deltas = append(deltas, new(big.Int).Mul(big.NewInt(5), ref.Pow10(g-1)))
			}
			for _, dl := range deltas {
				c2 := new(big.Int).Add(big10g, dl)
				if c2.Sign() <= 0 || c2.Cmp(ref.Cmax) > 0 {
					continue
				}
				for _, q := range []int{0, ref.MinQ, ref.MaxQ - g, -17} {
					for s := 0; s < 4; s++ {
						xb := MkBits(s&1 == 1, K, q+g)
						yb := MkBits(s&2 == 2, c2, q)
						checkCmpPair(w, xb, yb)
						checkCmpPair(w, yb, xb)
						n += 2
						if dl.Sign() == 0 {
							neq += 2
						}
					}
				}
			}
		}
		w.CellN("near-equal/different-digit", n-neq, true)
		w.CellN("near-equal/same-value-other-cohort", neq, true)
	})
	r.Phase("A2 near-equality", t0, nil)

	t0 = time.Now()
	sp := specialOperands()
	r.Par(len(sp), func(w *eng.W, i int) {
		xv := ref.Decode(sp[i])
		x := D(sp[i])
		// predicates
		w.Set1("IsZero", "", sp[i])
		if x.IsZero() != xv.IsZero() {
			w.R.Fail(eng.Case{Op: "IsZero", Args: []string{sp[i].Hex()}, Got: fmt.Sprint(x.IsZero()), Want: fmt.Sprint(xv.IsZero())})
		}
		if xv.Class != ref.NaN {
			ws := 0
			if !xv.IsZero() {
				ws = 1
				if xv.Neg {
					ws = -1
				}
			}
			if g := x.Sign(); g != ws {
				w.R.Fail(eng.Case{Op: "Sign", Args: []string{sp[i].Hex()}, Got: fmt.Sprint(g), Want: fmt.Sprint(ws)})
			}
		}
		for _, y := range sp {
			checkCmpPair(w, sp[i], y)
			yv := ref.Decode(y)
			kind := func(v ref.Val) string {
				switch {
				case v.Class == ref.NaN:
					return "nan"
				case v.Class == ref.Inf:
					return "inf"
				case v.IsZero():
					return "zero"
				}
				return "fin"
			}
			w.Cell("special/"+kind(xv)+"-"+kind(yv), true)
		}
	})
	r.Phase("A3 specials", t0, nil)

	// predicates over all shapes and cohorts
	t0 = time.Now()
	r.Par(len(shapes), func(w *eng.W, i int) {
		cs, qs := Cohort(shapes[i], 0)
		for k := range cs {
			for s := 0; s < 2; s++ {
				b := MkBits(s == 1, cs[k], qs[k])
				x := D(b)
				w.Set1("Sign", "", b)
				w.EvalN(2)
				ws := 1 - 2*s
				if x.IsZero() {
					w.R.Fail(eng.Case{Op: "IsZero", Args: []string{b.Hex()}, Got: "true", Want: "false"})
				}
				if g := x.Sign(); g != ws {
					w.R.Fail(eng.Case{Op: "Sign", Args: []string{b.Hex()}, Got: fmt.Sprint(g), Want: fmt.Sprint(ws)})
				}
			}
		}
		w.CellN("predicates/cohort-members", int64(2*len(cs)), true)
	})
	// zeros at every exponent
	r.Par(2, func(w *eng.W, s int) {
		for q := ref.MinQ; q <= ref.MaxQ; q++ {
			b := MkBits(s == 1, new(big.Int), q)
			x := D(b)
			w.EvalN(2)
			if !x.IsZero() || x.Sign() != 0 {
				w.R.Fail(eng.Case{Op: "IsZero", Args: []string{b.Hex()}, Got: fmt.Sprint(x.IsZero(), x.Sign()), Want: "true 0"})
			}
		}
		w.CellN("predicates/zero-every-exponent", int64(ref.MaxQ-ref.MinQ+1), true)
	})
	r.Phase("A4 predicates", t0, nil)

	// transitivity on explicit triples using only the library's answers
	t0 = time.Now()
	var tv []ref.Bits
	for _, c := range SmallShapes() {
		if len(tv) < 60 {
			for _, q := range []int{-3, 0, 2} {
				tv = append(tv, MkBits(false, c, q), MkBits(true, c, q))
			}
		}
	}
	tv = append(tv, ref.EncInf(false), ref.EncInf(true), MkBits(false, new(big.Int), 0), MkBits(true, new(big.Int), 5))
	r.Bounds["triple_values"] = len(tv)
	r.Par(len(tv), func(w *eng.W, i int) {
		a := D(tv[i])
		var n int64
		for _, bb := range tv {
			b := D(bb)
			ab := a.Cmp(b)
			for _, cb := range tv {
				c := D(cb)
				n++
				if ab.LessOrEqual() && b.Cmp(c).LessOrEqual() && !a.Cmp(c).LessOrEqual() {
					w.R.Fail(eng.Case{Op: "Cmp", Args: []string{tv[i].Hex(), cb.Hex()}, Got: "a<=b, b<=c but not a<=c with b=" + bb.Hex(), Want: "transitive"})
				}
				if ab.Less() && b.Cmp(a).LessOrEqual() {
					w.R.Fail(eng.Case{Op: "Cmp", Args: []string{tv[i].Hex(), bb.Hex()}, Got: "a<b and b<=a", Want: "antisymmetric"})
				}
			}
		}
		w.EvalN(n)
		w.CellN("triples", n, true)
	})
	r.Phase("A5 triples", t0, nil)

	// R: values reached by operation sequences: every depth-1 state against every depth-1 state, and every
	// reached state against its own cohort members, its one-unit neighbours and a stride of the others
	l1, l2 := ReachedStates(r)
	l1s := strideBits(l1, 1500)
	if r.Thorough() {
		l1s = l1
	}
	others := strideBits(l2, 40)
	reachedPhase(r, "R values reached by operation sequences", append(append([]ref.Bits{}, l1...), strideBits(l2, 20000)...), func(w *eng.W, b ref.Bits, v ref.Val) {
		checkCmpPair(w, b, b)
		cs, qs := Cohort(v.C, v.Q)
		for i := range cs {
			checkCmpPair(w, b, MkBits(v.Neg, cs[i], qs[i]))
			checkCmpPair(w, MkBits(!v.Neg, cs[i], qs[i]), b)
		}
		one := big.NewInt(1)
		if up := new(big.Int).Add(v.C, one); up.Cmp(ref.Cmax) <= 0 {
			checkCmpPair(w, b, MkBits(v.Neg, up, v.Q))
			checkCmpPair(w, MkBits(v.Neg, up, v.Q), b)
		}
		if v.C.Sign() > 0 {
			dn := new(big.Int).Sub(v.C, one)
			checkCmpPair(w, b, MkBits(v.Neg, dn, v.Q))
			checkCmpPair(w, MkBits(v.Neg, dn, v.Q), b)
		}
		for _, o := range others {
			checkCmpPair(w, b, o)
		}
		if b[15]%4 == 0 {
			for _, o := range l1s {
				checkCmpPair(w, b, o)
			}
		}
	})
	r.Require("product/order+0/adjexp+0", "product/order-1/adjexp+0", "product/order+1/adjexp+0", "near-equal/same-value-other-cohort", "special/nan-nan", "special/inf-zero", "special/zero-zero")
}

func sgnInt(a int) int {
	switch {
	case a < 0:
		return -1
	case a > 0:
		return 1
	}
	return 0
}
