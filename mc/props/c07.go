package props

import (
	"fmt"
	"math/big"
	"strconv"
	"time"

	dec "github.com/woodsbury/decimal128"

	"verifmc/eng"
	"verifmc/ref"
)

type fmtVal struct {
	b   ref.Bits
	v   ref.Val
	dig ref.Digits
	f   float64
	fx  bool // float64-exact
}

func mkFmtVal(neg bool, c *big.Int, q int) fmtVal {
	b := MkBits(neg, c, q)
	v := ref.Decode(b)
	fv := fmtVal{b: b, v: v, dig: ref.DigitsOf(v)}
	if q > -400 && q < 330 {
		f, exact := v.Rat().Float64()
		if exact {
			fv.f, fv.fx = f, true
			if c.Sign() == 0 && neg {
				fv.f = negZero()
			}
		}
	}
	return fv
}

func negZero() float64 { z := 0.0; return -z }

func fmtValues(thorough bool) []fmtVal {
	var cs []*big.Int
	for _, s := range []string{"0", "1", "2", "5", "9", "10", "15", "25", "35", "45", "55", "95", "99", "100", "125", "995", "999", "1005", "12345", "123456", "1234565", "1234575", "999999", "9999995", "9999994", "99999949", "5000001", "4999999",
		"15625", "9007199254740991", "9007199254740993", "18446744073709551615", "18446744073709551616", gen1[:17], gen1[:33], gen1[:34], gen1[:35], gen9[:34], "9999999999999999999999999999999999", "12980742146337069071326240823050239",
		"5000000000000000000000000000000001", "4999999999999999999999999999999999", "1000000000000000000000000000000005", "2500000000000000000000000000000000", "1000000000000000000000000000000000"} {
		cs = append(cs, bi(s))
	}
	var out []fmtVal
	seen := map[ref.Bits]bool{}
	add := func(v fmtVal) {
		if !seen[v.b] {
			seen[v.b] = true
			out = append(out, v)
		}
	}
	for i, c := range WordShapes() {
		if thorough || i%6 == 0 {
			for _, q := range []int{-ref.NumDigits(c) + 1, -3, 0} {
				add(mkFmtVal(i%2 == 1, c, q))
			}
		}
	}
	// non-minimal cohort encodings (trailing zeros inside the coefficient), ties included
	for _, base := range []string{"5", "15", "25", "125", "995", "1234565", "12345678901234567890125", "12345678901234567890250", "1", "99"} {
		for z := 1; z <= 33; z++ {
			c := new(big.Int).Mul(bi(base), ref.Pow10(z))
			if c.Cmp(ref.Cmax) > 0 {
				break
			}
			if thorough || z <= 4 || z%2 == 1 && z > 14 || z == 32 || z == 33 {
				for _, q := range []int{-z - 2, -z - 1, -z, -z + 1, 0} {
					add(mkFmtVal(z%2 == 0, c, q))
				}
			}
		}
	}
	for _, c := range cs {
		L := ref.NumDigits(c)
		var qs []int
		for q := -L - 7; q <= 7; q++ {
			if thorough || L <= 7 || q >= -L-7 && q <= -L+2 || q >= -8 || (q+L)%5 == 0 {
				qs = append(qs, q)
			}
		}
		qs = append(qs, -40, 20, 21, 22, 40, 99, 100, -99, -100, 999, 1000, -1000, ref.MinQ, ref.MaxQ)
		for _, q := range qs {
			if q < ref.MinQ || q > ref.MaxQ {
				continue
			}
			add(mkFmtVal(false, c, q))
			if thorough || q%2 == 0 {
				add(mkFmtVal(true, c, q))
			}
		}
	}
	return out
}

func fmtSpecs(thorough bool) []ref.Spec {
	nums := []int{-1, 0, 1, 2, 5, 6, 7, 17, 34, 35, 36, 40}
	if thorough {
		nums = nil
		for i := -1; i <= 40; i++ {
			nums = append(nums, i)
		}
	}
	var out []ref.Spec
	for _, verb := range []byte("eEfFgG") {
		for _, p := range nums {
			for _, wd := range nums {
				for fl := 0; fl < 32; fl++ {
					out = append(out, ref.Spec{Plus: fl&1 != 0, Minus: fl&2 != 0, Sharp: fl&4 != 0, Space: fl&8 != 0, Zero: fl&16 != 0,
						Wid: maxi(wd, 0), WidPresent: wd >= 0, Prec: maxi(p, 0), PrecPresent: p >= 0, Verb: verb})
				}
			}
		}
	}
	return out
}

// specText renders the spec in the order fmt documents flags; width 0 must not be confused with the 0 flag, so
// a present width of 0 is only emitted when it follows another width-less ambiguity-free position.
func specText(s ref.Spec) (string, bool) {
	if s.WidPresent && s.Wid == 0 {
		return "", false // "%0f" is the zero flag, width 0 cannot be written
	}
	return s.String(), true
}

func checkFmt(w *eng.W, fv fmtVal, s ref.Spec, st string) {
	want := ref.Sprintf(fv.dig, s)
	d := D(fv.b)
	w.Set1("Sprintf", st, fv.b)
	got := fmt.Sprintf("%"+st, d)
	got2 := string(d.Append(nil, st))
	w.EvalN(2)
	if got != want {
		w.R.Fail(eng.Case{Op: "Sprintf", Args: []string{fv.b.Hex(), st}, Got: strconv.Quote(got), Want: strconv.Quote(want), Note: fv.v.String()})
	}
	if got2 != want {
		w.R.Fail(eng.Case{Op: "Decimal.Append", Args: []string{fv.b.Hex(), st}, Got: strconv.Quote(got2), Want: strconv.Quote(want), Note: fv.v.String()})
	}
	// caller-supplied buffers: empty with capacity 0 and 1, a prefix in an exactly full, a tight and a roomy buffer (one per call, rotating)
	var buf []byte
	pre := ""
	switch (len(st) + int(fv.b[15]) + int(fv.b[0])) % 6 {
	case 3:
		buf = []byte("ab")[:2:2] // exactly full
		pre = "ab"
	case 4:
		buf = []byte{} // non-nil, no capacity
	case 5:
		buf = append(make([]byte, 0, 4), "abc"...)[:3:3] // exactly full, odd length
		pre = "abc"
	case 0:
		buf = make([]byte, 0, 1)
	case 1:
		buf = append(make([]byte, 0, 3), "ab"...)
		pre = "ab"
	case 2:
		buf = append(make([]byte, 0, 64), "ab"...)
		pre = "ab"
	}
	got3, pan := func() (s string, p any) {
		defer func() { p = recover() }()
		return string(d.Append(buf, st)), nil
	}()
	w.Eval()
	w.Cell(fmt.Sprintf("Decimal.Append/caller-buffer/cap%d", cap(buf)), true)
	if pan != nil {
		got3 = fmt.Sprint("panic: ", pan)
	}
	if got3 != pre+want {
		w.R.Fail(eng.Case{Op: "Decimal.Append", Args: []string{fv.b.Hex(), st, fmt.Sprintf("buffer %q cap %d", pre, cap(buf))}, Got: strconv.Quote(got3), Want: strconv.Quote(pre + want), Note: fv.v.String()})
	}
}

func parseSpec(st string) ref.Spec {
	var s ref.Spec
	i := 0
	for ; i < len(st); i++ {
		switch st[i] {
		case '+':
			s.Plus = true
		case '-':
			s.Minus = true
		case '#':
			s.Sharp = true
		case ' ':
			s.Space = true
		case '0':
			s.Zero = true
		default:
			goto width
		}
	}
width:
	for ; i < len(st) && st[i] >= '0' && st[i] <= '9'; i++ {
		s.Wid = s.Wid*10 + int(st[i]-'0')
		s.WidPresent = true
	}
	if i < len(st) && st[i] == '.' {
		s.PrecPresent = true
		for i++; i < len(st) && st[i] >= '0' && st[i] <= '9'; i++ {
			s.Prec = s.Prec*10 + int(st[i]-'0')
		}
	}
	if i < len(st) {
		s.Verb = st[i]
	}
	return s
}

func init() {
	rp := func(c eng.Case) (string, string, error) {
		b, err := ref.ParseHex(c.Args[0])
		if err != nil {
			return "", "", err
		}
		st := c.Args[1]
		want := ref.Sprintf(ref.DigitsOf(ref.Decode(b)), parseSpec(st))
		var got string
		if c.Op == "Sprintf" {
			got = fmt.Sprintf("%"+st, D(b))
		} else {
			var buf []byte
			pre := ""
			if len(c.Args) > 2 { // "buffer %q cap %d"
				var cp int
				fmt.Sscanf(c.Args[2], "buffer %q cap %d", &pre, &cp)
				buf = append(make([]byte, 0, cp), pre...)
			}
			func() {
				defer func() {
					if p := recover(); p != nil {
						got = fmt.Sprint("panic: ", p)
					}
				}()
				got = string(D(b).Append(buf, st))
			}()
			want = pre + want
		}
		return strconv.Quote(got), strconv.Quote(want), nil
	}
	Replayers["Sprintf"] = rp
	Replayers["Decimal.Append"] = rp
	Checks["C07"] = Check{C07, "model_checking"}
}

func C07(r *eng.Run) {
	r.Rule = "conformance with a reference formatter (exact digits -> half-even rounding at the position the verb/precision selects -> strconv layout -> fmt flag/width handling, ported from the Go sources): " +
		"value alphabet (digit shapes incl. ties 5/15/25/995/9999995 and 34/35-digit coefficients at exponents placing the decimal point at every position) x verbs {e,E,f,F,g,G} x precision x width x all 32 flag subsets, through fmt.Sprintf and Decimal.Append; " +
		"Format/Append(d,verb,prec) for flag-free specs; flag sequences (orderings/repeats up to length 3). The model is bound to the installed toolchain on every run: for every float64-exact value of the alphabet and every spec it must equal fmt.Sprintf and strconv.FormatFloat on that float64 (traces_validated_against_impl). " +
		"states = value x spec combinations, transitions = outputs compared; non-trivial = outputs that needed rounding, padding or a flag."
	r.Assumptions = []string{"binary codec is the identity on bits (checked at start; decided by C12)", "configuration: the fmt/strconv of the installed Go toolchain (the model is validated against it first; a mismatch aborts with exit 2)"}
	if !CodecSanity(r) {
		return
	}
	vals := fmtValues(r.Thorough())
	specs := fmtSpecs(r.Thorough())
	r.Bounds["values"] = len(vals)
	r.Bounds["specs"] = len(specs)
	nfx := 0
	for _, v := range vals {
		if v.fx {
			nfx++
		}
	}
	r.Bounds["float64_exact_values"] = nfx

	// binding: model vs toolchain on float64-exact values
	t0 := time.Now()
	r.Par(len(vals), func(w *eng.W, i int) {
		fv := vals[i]
		if !fv.fx {
			return
		}
		bad := 0
		for _, s := range specs {
			st, ok := specText(s)
			if !ok {
				continue
			}
			if !s.PrecPresent && (s.Verb == 'g' || s.Verb == 'G') && len(fv.dig.D) > 15 {
				continue // float64 "shortest" is not the exact digit string for long values
			}
			want := fmt.Sprintf("%"+st, fv.f)
			got := ref.Sprintf(fv.dig, s)
			w.R.Traces.Add(1)
			if got != want && bad < 3 {
				bad++
				w.R.SelfFail("format model disagrees with the toolchain: Sprintf(%q, %v) = %q, model %q", "%"+st, fv.f, want, got)
			}
		}
		for _, verb := range []byte("eEfgG") {
			for p := -1; p <= 40; p++ {
				if p < 0 && len(fv.dig.D) > 15 {
					continue
				}
				want := strconv.FormatFloat(fv.f, verb, p, 64)
				got := ref.FormatFloat(fv.dig, verb, p)
				w.R.Traces.Add(1)
				if got != want && bad < 3 {
					bad++
					w.R.SelfFail("format model disagrees with strconv: FormatFloat(%v,%c,%d) = %q, model %q", fv.f, verb, p, want, got)
				}
			}
		}
	})
	r.Phase("binding model to toolchain", t0, map[string]any{"traces": r.Traces.Load()})

	// A1: product
	t0 = time.Now()
	r.Par(len(vals), func(w *eng.W, i int) {
		fv := vals[i]
		var n, nt int64
		for _, s := range specs {
			st, ok := specText(s)
			if !ok {
				continue
			}
			checkFmt(w, fv, s, st)
			n++
			if s.PrecPresent && s.Prec < len(fv.dig.D) || s.WidPresent || s.Plus || s.Sharp || s.Space {
				nt++
			}
		}
		// precisions tied to this value: around its digit count and around its number of fraction digits
		L := len(fv.dig.D)
		rel := map[int]bool{}
		for d := -2; d <= 2; d++ {
			rel[L+d] = true
			rel[L-fv.dig.DP+d] = true
			rel[-fv.dig.DP+d] = true
		}
		for p := range rel {
			if p < 0 || p > 60 {
				continue
			}
			for _, verb := range []byte("eEfFgG") {
				for _, fl := range []int{0, 1, 4, 16, 2 | 16, 8} {
					for _, wd := range []int{-1, 12, 45} {
						sp := ref.Spec{Plus: fl&1 != 0, Minus: fl&2 != 0, Sharp: fl&4 != 0, Space: fl&8 != 0, Zero: fl&16 != 0, Wid: maxi(wd, 0), WidPresent: wd >= 0, Prec: p, PrecPresent: true, Verb: verb}
						checkFmt(w, fv, sp, sp.String())
						nt++
						n++
					}
				}
			}
		}
		w.CellN(fmt.Sprintf("product/len%d", len(fv.dig.D)), nt, true)
		w.CellN("product/plain", n-nt, false)
		// Format / Append(d, verb, prec)
		d := D(fv.b)
		for _, verb := range []byte("eEfgG") {
			for p := -1; p <= 41; p++ {
				want := ref.FormatFloat(fv.dig, verb, p)
				w.Set1I("Format", string(verb), fv.b, int64(p))
				got := dec.Format(d, verb, p)
				pbuf := []byte("ab")[:2:2] // exactly full; a roomy and a nil-based one on alternate precisions
				if p%3 == 1 {
					pbuf = append(make([]byte, 0, 80), "ab"...)
				} else if p%3 == 2 {
					pbuf = append([]byte(nil), "ab"...)
				}
				got2 := string(dec.Append(pbuf, d, verb, p))
				w.EvalN(2)
				if got != want || got2 != "ab"+want {
					w.R.Fail(eng.Case{Op: "Format", Args: []string{fv.b.Hex(), string(verb), itoa(p)}, Got: strconv.Quote(got) + " / " + strconv.Quote(got2), Want: strconv.Quote(want), Note: fv.v.String()})
				}
			}
		}
		w.CellN("Format(verb,prec)", 5*43, true)
	})
	r.States.Add(int64(len(vals)) * int64(len(specs)))
	r.Transitions.Add(r.Evals())
	r.Phase("A1 product", t0, nil)

	// A2: flag sequences
	t0 = time.Now()
	flags := []byte("+-# 0")
	var seqs []string
	for _, a := range flags {
		seqs = append(seqs, string(a))
		for _, b := range flags {
			seqs = append(seqs, string([]byte{a, b}))
			for _, c := range flags {
				seqs = append(seqs, string([]byte{a, b, c}))
			}
		}
	}
	r.Bounds["flag_sequences"] = len(seqs)
	sub := vals
	if len(sub) > 60 {
		var s2 []fmtVal
		for i := 0; i < len(vals); i += len(vals) / 60 {
			s2 = append(s2, vals[i])
		}
		sub = s2
	}
	r.Par(len(sub), func(w *eng.W, i int) {
		for _, sq := range seqs {
			for _, rest := range []string{"f", "8.2f", "12e", "9.3g", "12.1G", "3.0f", "20E"} {
				st := sq + rest
				checkFmt(w, sub[i], parseSpec(st), st)
			}
		}
		w.CellN("flag-sequences", int64(len(seqs)*7), true)
	})
	r.Transitions.Add(int64(len(sub) * len(seqs) * 7 * 2))
	r.Phase("A2 flag sequences", t0, nil)
	r.Require("product/len1", "product/len34", "product/len35", "flag-sequences", "Format(verb,prec)")
}

func c07Replay(c eng.Case) (string, string, error) {
	return "", "", fmt.Errorf("unused")
}
