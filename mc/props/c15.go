package props

import (
	"fmt"
	"math"
	"math/big"
	"strings"
	"time"

	dec "github.com/woodsbury/decimal128"

	"verifmc/eng"
	"verifmc/ref"
)

type classOperand struct {
	b    ref.Bits
	f    float64 // float64 shadow with the same class/sign (and the same exact value when finite)
	name string
}

func classOperands(allCohorts bool) []classOperand {
	var out []classOperand
	for _, hi := range []uint64{0x7c00000000000000, 0xfc00000000000000, 0x7e00000000000000, 0x7fffffffffffffff, 0x7c00000000000000} {
		for _, lo := range []uint64{0, 0x010203, ^uint64(0)} {
			out = append(out, classOperand{ref.FromWords(hi, lo), math.NaN(), "NaN"})
		}
	}
	for _, hi := range []uint64{0x7800000000000000, 0x7a00000000000abc, 0x7bffffffffffffff} {
		out = append(out, classOperand{ref.FromWords(hi, 0), math.Inf(1), "+Inf"}, classOperand{ref.FromWords(hi|1<<63, 5), math.Inf(-1), "-Inf"})
	}
	for _, q := range []int{ref.MinQ, -2, 0, 3, ref.MaxQ} {
		out = append(out, classOperand{MkBits(false, new(big.Int), q), 0, "+0"}, classOperand{MkBits(true, new(big.Int), q), negZero(), "-0"})
	}
	fin := []struct {
		c int64
		q int
		f float64
	}{{25, -2, 0.25}, {5, -1, 0.5}, {50, -2, 0.5}, {1, 0, 1}, {10, -1, 1}, {100, -2, 1}, {1000000000000000000, -18, 1}, {175, -2, 1.75}, {25, -1, 2.5}, {3, 0, 3}, {30, -1, 3}, {4, 0, 4}, {2, 1, 20}, {3, 1, 30}, {1, 2, 100}, {15, -1, 1.5}, {2, 0, 2}, {5, 0, 5}, {75, -2, 0.75}}
	seen := map[ref.Bits]bool{}
	for _, x := range fin {
		cs, qs := Cohort(big.NewInt(x.c), x.q)
		for k := range cs {
			// binary table: the given encoding plus the members with the smallest and largest coefficient;
			// unary table (allCohorts): every member (operand-dependent shortcuts often key on coefficient length)
			given := cs[k].Cmp(big.NewInt(x.c)) == 0
			if !(allCohorts || given || k == 0 || k == len(cs)-1) {
				continue
			}
			for s := 0; s < 2; s++ {
				b := MkBits(s == 1, cs[k], qs[k])
				if seen[b] {
					continue
				}
				seen[b] = true
				f := x.f
				if s == 1 {
					f = -f
				}
				out = append(out, classOperand{b, f, fmt.Sprint(f)})
			}
		}
	}
	return out
}

func fclass(f float64) string {
	switch {
	case math.IsNaN(f):
		return "NaN"
	case math.IsInf(f, 1):
		return "+Inf"
	case math.IsInf(f, -1):
		return "-Inf"
	case f == 0:
		if math.Signbit(f) {
			return "-0"
		}
		return "+0"
	case f < 0:
		return "-finite"
	}
	return "+finite"
}

func vclass(v ref.Val) string {
	sg := "+"
	if v.Neg {
		sg = "-"
	}
	switch v.Class {
	case ref.NaN:
		return "NaN"
	case ref.Inf:
		return sg + "Inf"
	}
	if v.C.Sign() == 0 {
		return sg + "0"
	}
	return sg + "finite"
}

func payloadArg(v ref.Val) string {
	s := ""
	if v.Neg {
		s = "-"
	}
	switch {
	case v.Class == ref.Inf:
		return s + "Infinite"
	case v.C.Sign() == 0:
		return s + "Zero"
	}
	return s + "Finite"
}

type binOp struct {
	name    string // payload name
	label   string
	lib     func(x, y dec.Decimal) dec.Decimal
	shadow  func(x, y float64) float64
	nanRule string // "" = propagate operand NaN; "pow" = math.Pow exceptions
}

type unOp struct {
	name, label string
	lib         func(x dec.Decimal) dec.Decimal
	shadow      func(x float64) float64
}

func binOps() []binOp {
	var out []binOp
	type mk struct {
		name string
		wm   func(x, y dec.Decimal, m dec.RoundingMode) dec.Decimal
		def  func(x, y dec.Decimal) dec.Decimal
		sh   func(x, y float64) float64
		rule string
	}
	trunc := func(x, y float64) float64 { return math.Trunc(x / y) }
	for _, o := range []mk{
		{"Add", dec.Decimal.AddWithMode, dec.Decimal.Add, func(x, y float64) float64 { return x + y }, ""},
		{"Sub", dec.Decimal.SubWithMode, dec.Decimal.Sub, func(x, y float64) float64 { return x - y }, ""},
		{"Mul", dec.Decimal.MulWithMode, dec.Decimal.Mul, func(x, y float64) float64 { return x * y }, ""},
		{"Quo", dec.Decimal.QuoWithMode, dec.Decimal.Quo, func(x, y float64) float64 { return x / y }, ""},
		{"Pow", dec.Decimal.PowWithMode, dec.Decimal.Pow, math.Pow, "pow"},
		{"QuoRem", func(x, y dec.Decimal, m dec.RoundingMode) dec.Decimal { q, _ := x.QuoRemWithMode(y, m); return q }, func(x, y dec.Decimal) dec.Decimal { q, _ := x.QuoRem(y); return q }, trunc, ""},
		{"QuoRem", func(x, y dec.Decimal, m dec.RoundingMode) dec.Decimal { _, r := x.QuoRemWithMode(y, m); return r }, func(x, y dec.Decimal) dec.Decimal { _, r := x.QuoRem(y); return r }, math.Mod, ""},
	} {
		o := o
		lbl := o.name
		if o.name == "QuoRem" {
			if len(out) > 0 && out[len(out)-1].name == "QuoRem" {
				lbl = "QuoRem.rem"
			} else {
				lbl = "QuoRem.quo"
			}
		}
		out = append(out, binOp{o.name, lbl, o.def, o.sh, o.rule})
		for m := 0; m < 6; m++ {
			mm := LibModes[m]
			out = append(out, binOp{o.name, lbl + "WithMode/" + MName(m), func(x, y dec.Decimal) dec.Decimal { return o.wm(x, y, mm) }, o.sh, o.rule})
		}
	}
	return out
}

func unOps() []unOp {
	out := []unOp{
		{"", "Abs", dec.Abs, math.Abs},
		{"", "Neg", dec.Decimal.Neg, func(x float64) float64 { return -x }},
		{"", "Ceil", dec.Ceil, math.Ceil},
		{"", "Floor", dec.Floor, math.Floor},
		{"", "Round", dec.Round, math.Round},
		{"", "Trunc", dec.Trunc, math.Trunc},
		{"", "Ceil(0)", func(x dec.Decimal) dec.Decimal { return x.Ceil(0) }, math.Ceil},
		{"", "Floor(0)", func(x dec.Decimal) dec.Decimal { return x.Floor(0) }, math.Floor},
		{"", "Canonical", dec.Decimal.Canonical, func(x float64) float64 { return x }},
		{"", "Ldexp(0)", func(x dec.Decimal) dec.Decimal { return dec.Ldexp(x, 0) }, func(x float64) float64 { return x }},
		{"", "Ldexp(3)", func(x dec.Decimal) dec.Decimal { return dec.Ldexp(x, 3) }, func(x float64) float64 { return x * 1000 }},
		{"", "Frexp", func(x dec.Decimal) dec.Decimal { f, _ := dec.Frexp(x); return f }, func(x float64) float64 { return x }},
		{"", "Exp", dec.Exp, math.Exp},
		{"", "Exp2", dec.Exp2, math.Exp2},
		{"", "Exp10", dec.Exp10, func(x float64) float64 { return math.Pow(10, x) }},
		{"", "Expm1", dec.Expm1, math.Expm1},
		{"Log", "Log", dec.Log, math.Log},
		{"Log2", "Log2", dec.Log2, math.Log2},
		{"Log10", "Log10", dec.Log10, math.Log10},
		{"Log1p", "Log1p", dec.Log1p, math.Log1p},
		{"Sqrt", "Sqrt", dec.Sqrt, math.Sqrt},
		{"", "Cbrt", dec.Cbrt, math.Cbrt},
	}
	for m := 0; m < 6; m++ {
		mm := LibModes[m]
		sh := math.RoundToEven
		switch m {
		case 1:
			sh = math.Round
		case 2:
			sh = math.Trunc
		case 3:
			sh = func(x float64) float64 {
				if x < 0 {
					return math.Floor(x)
				}
				return math.Ceil(x)
			}
		case 4:
			sh = math.Floor
		case 5:
			sh = math.Ceil
		}
		out = append(out, unOp{"", "Round(0," + MName(m) + ")", func(x dec.Decimal) dec.Decimal { return x.Round(0, mm) }, sh})
	}
	return out
}

func init() { Checks["C15"] = Check{C15, "exploration"} }

func C15(r *eng.Run) {
	r.Rule = "operand-class table: every pair (and every single operand) from the class alphabet {NaN in 15 encodings/payloads/signs, +-Inf in canonical and garbage-bit encodings, +-0 at 5 exponents, +-1 in 4 cohorts, odd/even integers, integers with positive exponent, half-integers, non-integers below and above 1} " +
		"x every binary operation (Add, Sub, Mul, Quo, QuoRem quotient and remainder, Pow; mode-less and with each of the 6 modes) and every unary operation (Abs, Neg, Ceil, Floor, Round, Trunc, Canonical, Ldexp, Frexp, Exp, Exp2, Exp10, Expm1, Log, Log2, Log10, Log1p, Sqrt, Cbrt, Round(0,mode)); " +
		"oracle for class and sign = the corresponding Go float64 operation on float64 shadows holding the same exact values; NaN operands must propagate bit-identically (Pow(x,0)=Pow(1,y)=1); NaNs created by invalid operations must report Op(class[,class]) through Payload; " +
		"predicates IsNaN/IsInf/IsZero/Signbit/Sign over all 2^17 top-bit patterns x low-bit shapes must classify exactly one of NaN, Inf, zero, finite-nonzero, consistently with the independent decoder. Non-trivial = any case with a special or zero operand or result."
	r.Assumptions = []string{"binary codec is the identity on bits (checked at start; decided by C12)", "finite representatives are moderate (|x| <= 100) so float64 and exact decimal agree on the class of every result; range effects are decided by C16/C18",
		"Min/Max are not judged here (Go's math.Max/Min treat NaN/Inf differently; C04 decides them)"}
	if !CodecSanity(r) {
		return
	}
	ops := classOperands(false)
	uopsOperands := classOperands(true)
	r.Bounds["class_operands_unary_all_cohorts"] = len(uopsOperands)
	r.Bounds["class_operands"] = len(ops)
	t0 := time.Now()
	bops := binOps()
	r.Bounds["binary_entry_points"] = len(bops)
	r.Par(len(ops), func(w *eng.W, i int) {
		x := ops[i]
		xv := ref.Decode(x.b)
		for _, y := range ops {
			yv := ref.Decode(y.b)
			for _, op := range bops {
				w.Set2(op.label, "", x.b, y.b)
				gb := B(op.lib(D(x.b), D(y.b)))
				w.Eval()
				gv := ref.Decode(gb)
				want := op.shadow(x.f, y.f)
				cell := op.name + "/" + x.name[:minInt(2, len(x.name))] + "," + y.name[:minInt(2, len(y.name))]
				_ = cell
				fail := func(got, wants string) {
					w.R.Fail(eng.Case{Op: op.label, Args: []string{x.b.Hex(), y.b.Hex()}, Got: got, Want: wants, Note: fmt.Sprintf("x=%s y=%s float64 shadow %v op %v = %v", xv, yv, x.f, y.f, want)})
				}
				xn, yn := xv.Class == ref.NaN, yv.Class == ref.NaN
				if xn || yn {
					if op.nanRule == "pow" && !math.IsNaN(want) {
						w.Cell("nan-operand/pow-exception", true)
						if vclass(gv) != fclass(want) || !ref.SameValue(gv, ref.Val{Class: ref.Fin, C: big.NewInt(1)}) {
							fail(gv.String(), "exactly 1")
						}
						continue
					}
					w.Cell("nan-operand/propagate", true)
					if !(xn && gb == x.b || yn && gb == y.b) {
						fail(gb.Hex()+" ("+gv.String()+")", "the NaN operand propagated bit for bit")
					}
					continue
				}
				wc := fclass(want)
				if wc == "+0" && (op.name == "Add" || op.name == "Sub") && strings.HasSuffix(op.label, "ToNegativeInf") && xv.Class == ref.Fin && yv.Class == ref.Fin && xv.C.Sign() != 0 && yv.C.Sign() != 0 {
					wc = "-0" // exact cancellation under roundTowardNegative (float64 shadows run in round-to-nearest)
				}
				if vclass(gv) != wc {
					fail(gv.String(), "class/sign "+wc)
					continue
				}
				if gv.Class == ref.NaN {
					w.Cell("invalid/"+op.name, true)
					wantP := op.name + "(" + payloadArg(xv) + ", " + payloadArg(yv) + ")"
					if gp := D(gb).Payload().String(); gp != wantP {
						fail("payload "+gp, "payload "+wantP)
					}
					continue
				}
				special := xv.Class != ref.Fin || yv.Class != ref.Fin || xv.C.Sign() == 0 || yv.C.Sign() == 0
				w.Cell("result/"+fclass(want), special || gv.Class != ref.Fin || gv.C.Sign() == 0)
			}
		}
	})
	r.Phase("binary operations", t0, nil)

	t0 = time.Now()
	uops := unOps()
	r.Bounds["unary_entry_points"] = len(uops)
	r.Par(len(uopsOperands), func(w *eng.W, i int) {
		x := uopsOperands[i]
		xv := ref.Decode(x.b)
		for _, op := range uops {
			w.Set1(op.label, "", x.b)
			gb := B(op.lib(D(x.b)))
			w.Eval()
			gv := ref.Decode(gb)
			want := op.shadow(x.f)
			fail := func(got, wants string) {
				w.R.Fail(eng.Case{Op: op.label, Args: []string{x.b.Hex()}, Got: got, Want: wants, Note: fmt.Sprintf("x=%s float64 shadow f(%v) = %v", xv, x.f, want)})
			}
			if xv.Class == ref.NaN {
				w.Cell("unary/nan-operand", true)
				if op.label == "Canonical" {
					if gv.Class != ref.NaN {
						fail(gv.String(), "NaN")
					}
					continue
				}
				want := x.b
				if op.label == "Abs" {
					want = ref.FromWords(x.b.Hi()&^(1<<63), x.b.Lo())
				} else if op.label == "Neg" {
					want = ref.FromWords(x.b.Hi()^(1<<63), x.b.Lo())
				}
				if gb != want {
					fail(gb.Hex(), "the NaN operand propagated bit for bit: "+want.Hex())
				}
				continue
			}
			if vclass(gv) != fclass(want) {
				fail(gv.String(), "class/sign "+fclass(want))
				continue
			}
			if gv.Class == ref.NaN {
				w.Cell("unary/invalid/"+op.label, true)
				wantP := op.name + "(" + payloadArg(xv) + ")"
				if gp := D(gb).Payload().String(); gp != wantP {
					fail("payload "+gp, "payload "+wantP)
				}
				continue
			}
			w.Cell("unary/"+op.label+"/"+fclass(want), xv.Class != ref.Fin || xv.C.Sign() == 0 || gv.Class != ref.Fin || gv.C.Sign() == 0)
		}
	})
	r.Phase("unary operations", t0, nil)

	// word-structured finite operands (coefficient a multiple of 2^64, 2^112, 2^113 form-2 seam, Cmax) against specials and zeros:
	// zero tests on multi-word coefficients must look at every word
	t0 = time.Now()
	var bigReps []classOperand
	for _, c := range []*big.Int{pow2(64), pow2(65), pow2(112), new(big.Int).Mul(big.NewInt(10), pow2(64)), pow2(113), new(big.Int).Mul(big.NewInt(3), pow2(64)), ref.Cmax, new(big.Int).Lsh(big.NewInt(0xffffffff), 64)} {
		for _, q := range []int{0, -20, 5, ref.MinQ, ref.MaxQ} {
			for s := 0; s < 2; s++ {
				f, _ := ref.Val{Class: ref.Fin, Neg: s == 1, C: c, Q: clampInt(q, -300, 250)}.Rat().Float64()
				bigReps = append(bigReps, classOperand{MkBits(s == 1, c, q), f, "wide-finite"})
			}
		}
	}
	var specials []classOperand
	for _, o := range ops {
		if v := ref.Decode(o.b); v.Class != ref.Fin || v.C.Sign() == 0 {
			specials = append(specials, o)
		}
	}
	r.Bounds["wide_finite_operands"] = len(bigReps)
	r.Par(len(bigReps), func(w *eng.W, i int) {
		x := bigReps[i]
		xv := ref.Decode(x.b)
		for _, y := range specials {
			yv := ref.Decode(y.b)
			for _, op := range bops {
				if op.name == "Pow" {
					continue // magnitudes differ between float64 and decimal; Pow's special table has its own exact phase below
				}
				for _, swap := range []bool{false, true} {
					a, b, av, bv, af, bf := x, y, xv, yv, x.f, y.f
					if swap {
						a, b, av, bv, af, bf = y, x, yv, xv, y.f, x.f
					}
					w.Set2(op.label, "", a.b, b.b)
					gb := B(op.lib(D(a.b), D(b.b)))
					w.Eval()
					gv := ref.Decode(gb)
					want := op.shadow(af, bf)
					if av.Class == ref.NaN || bv.Class == ref.NaN {
						if !(av.Class == ref.NaN && gb == a.b || bv.Class == ref.NaN && gb == b.b) {
							w.R.Fail(eng.Case{Op: op.label, Args: []string{a.b.Hex(), b.b.Hex()}, Got: gb.Hex(), Want: "the NaN operand propagated bit for bit"})
						}
						continue
					}
					wc := fclass(want)
					if vclass(gv) != wc {
						w.R.Fail(eng.Case{Op: op.label, Args: []string{a.b.Hex(), b.b.Hex()}, Got: gv.String(), Want: "class/sign " + wc, Note: fmt.Sprintf("x=%s y=%s", av, bv)})
						continue
					}
					if gv.Class == ref.NaN {
						wantP := op.name + "(" + payloadArg(av) + ", " + payloadArg(bv) + ")"
						if gp := D(gb).Payload().String(); gp != wantP {
							w.R.Fail(eng.Case{Op: op.label, Args: []string{a.b.Hex(), b.b.Hex()}, Got: "payload " + gp, Want: "payload " + wantP})
						}
					}
				}
			}
		}
		w.Cell("wide-finite-vs-special", true)
	})
	r.Phase("wide finite operands vs specials", t0, nil)

	// Pow's special-case table decided exactly: base in {+-0, +-Inf}, exponent any finite value; the parity of huge
	// integers (not representable in float64) decides the sign
	t0 = time.Now()
	var powYs []ref.Bits
	for _, sY := range []string{"1", "2", "3", "4", "7", "10", "11", "0.5", "2.5", "1e20", "3e20", "18446744073709551616", "18446744073709551617", "18446744073709551615", "9999999999999999999999999999999999",
		"12980742146337069071326240823050239", "12980742146337069071326240823050238", "1844674407370955161.7", "1e6111", "7e100", "1e-5", "123456789012345678901234567890123.5", "30", "3e1", "50e-1", "1000000000000000000001"} {
		v := ref.MustLit(sY)
		cs, qs := Cohort(v.C, v.Q)
		for k := range cs {
			if k == 0 || k == len(cs)-1 || k == len(cs)/2 {
				powYs = append(powYs, MkBits(false, cs[k], qs[k]), MkBits(true, cs[k], qs[k]))
			}
		}
	}
	r.Bounds["pow_special_exponents"] = len(powYs)
	r.Par(len(specials), func(w *eng.W, i int) {
		xb := specials[i].b
		xv := ref.Decode(xb)
		if xv.Class == ref.NaN {
			return
		}
		for _, yb := range powYs {
			yv := ref.Decode(yb)
			isInt, abs := isIntegerVal(yv)
			odd := isInt && abs.Bit(0) == 1
			neg := xv.Neg && odd
			// y > 0: Inf -> Inf, 0 -> 0 ; y < 0: Inf -> 0, 0 -> Inf
			toInf := (xv.Class == ref.Inf) != yv.Neg
			wc := "0"
			if toInf {
				wc = "Inf"
			}
			if neg {
				wc = "-" + wc
			} else {
				wc = "+" + wc
			}
			for m := 0; m < 6; m++ {
				w.Set2("PowWithMode", ref.ModeNames[m], xb, yb)
				gv := V(D(xb).PowWithMode(D(yb), LibModes[m]))
				w.Eval()
				if vclass(gv) != wc {
					w.R.Fail(eng.Case{Op: "PowWithMode", Args: []string{xb.Hex(), yb.Hex()}, Mode: MName(m), Got: gv.String(), Want: wc + " (math.Pow special-case table with exact parity)", Note: fmt.Sprintf("x=%s y=%s", xv, yv)})
				}
			}
		}
		w.Cell("pow-special-exact-parity", true)
	})
	r.Phase("Pow special table with exact parity", t0, nil)

	// predicates over all top-17-bit patterns
	t0 = time.Now()
	shapes := lowShapes()
	r.Par(1<<17, func(w *eng.W, top int) {
		var n [4]int64
		for si, sh := range shapes {
			if si%3 != 0 && top%8 != 0 {
				continue
			}
			b := ref.FromWords(uint64(top)<<47|sh[0], sh[1])
			v := ref.Decode(b)
			d := D(b)
			w.Set1("predicates", "", b)
			isNaN, isInf, isZero := d.IsNaN(), d.IsInf(0), d.IsZero()
			w.EvalN(4)
			k := 3
			switch {
			case v.Class == ref.NaN:
				k = 0
			case v.Class == ref.Inf:
				k = 1
			case v.C.Sign() == 0:
				k = 2
			}
			n[k]++
			got := fmt.Sprintf("IsNaN=%v IsInf(0)=%v IsZero=%v IsInf(1)=%v IsInf(-1)=%v Signbit=%v", isNaN, isInf, isZero, d.IsInf(1), d.IsInf(-1), d.Signbit())
			want := fmt.Sprintf("IsNaN=%v IsInf(0)=%v IsZero=%v IsInf(1)=%v IsInf(-1)=%v Signbit=%v", k == 0, k == 1, k == 2, k == 1 && !v.Neg, k == 1 && v.Neg, v.Neg)
			if got != want {
				w.R.Fail(eng.Case{Op: "predicates", Args: []string{b.Hex()}, Got: got, Want: want, Note: v.String()})
			}
			if k != 0 {
				ws := 0
				if k != 2 {
					ws = 1
					if v.Neg {
						ws = -1
					}
				}
				if g := d.Sign(); g != ws {
					w.R.Fail(eng.Case{Op: "Sign", Args: []string{b.Hex()}, Got: fmt.Sprint(g), Want: fmt.Sprint(ws)})
				}
			}
		}
		for k, nm := range []string{"nan", "inf", "zero", "finite-nonzero"} {
			if n[k] > 0 {
				w.CellN("predicates/"+nm, n[k], k != 3)
			}
		}
	})
	r.Phase("predicates", t0, nil)
	r.Require("nan-operand/propagate", "nan-operand/pow-exception", "invalid/Add", "invalid/Sub", "invalid/Mul", "invalid/Quo", "invalid/QuoRem", "invalid/Pow", "unary/invalid/Log", "unary/invalid/Sqrt", "unary/invalid/Log1p", "predicates/nan", "predicates/inf", "predicates/zero")
}

func minInt(a, b int) int {
	if a < b {
		return a
	}
	return b
}
