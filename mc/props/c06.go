package props

import (
	"fmt"
	"math/big"
	"time"

	dec "github.com/woodsbury/decimal128"

	"verifmc/eng"
	"verifmc/ref"
)

func textWant(v ref.Val, verb byte) string {
	switch v.Class {
	case ref.NaN:
		return "NaN"
	case ref.Inf:
		if v.Neg {
			return "-Inf"
		}
		return "+Inf"
	}
	return ref.FormatFloat(ref.DigitsOf(v), verb, -1)
}

// checkText: all default-text entry points on one Decimal, plus the round trip. full=false skips the fmt paths (cheaper).
func checkText(w *eng.W, b ref.Bits, v ref.Val, full bool) {
	d := D(b)
	w.Set1("String", "", b)
	wantG := textWant(v, 'g')
	fail := func(op, got, want string) {
		w.R.Fail(eng.Case{Op: op, Args: []string{b.Hex()}, Got: got, Want: want, Note: v.String()})
	}
	s := d.String()
	mt, err := d.MarshalText()
	w.EvalN(2)
	if s != wantG {
		fail("String", s, wantG)
	}
	if err != nil || string(mt) != wantG {
		fail("MarshalText", fmt.Sprint(string(mt), " err=", err), wantG)
	}
	if full {
		if g := fmt.Sprintf("%v", d); g != wantG {
			fail("%v", g, wantG)
		}
		for _, verb := range []byte{'e', 'f', 'g'} {
			want := textWant(v, verb)
			if g := dec.Format(d, verb, -1); g != want {
				fail("Format("+string(verb)+",-1)", g, want)
			}
			pre := []byte("xy")
			if g := dec.Append(pre, d, verb, -1); string(g) != "xy"+want {
				fail("Append("+string(verb)+",-1)", string(g), "xy"+want)
			}
			// "that text" includes the e/f/g forms: they must parse back to d as well
			if v.Class == ref.Fin {
				pv, perr := dec.Parse(want)
				if perr != nil || !ref.SameValue(V(pv), v) {
					fail("Parse(Format("+string(verb)+",-1))", fmt.Sprint(V(pv), " err=", perr, " text=", short(want)), v.String())
				}
			}
		}
		w.EvalN(7)
	}
	// round trip
	p, err := dec.Parse(s)
	var u dec.Decimal
	err2 := u.UnmarshalText(mt)
	w.EvalN(2)
	same := func(g dec.Decimal) bool {
		gv := V(g)
		if v.Class == ref.NaN {
			return gv.Class == ref.NaN
		}
		return ref.SameValue(gv, v)
	}
	if err != nil || !same(p) {
		fail("Parse(String)", fmt.Sprint(V(p), " err=", err, " text=", s), v.String())
	}
	if err2 != nil || !same(u) {
		fail("UnmarshalText(MarshalText)", fmt.Sprint(V(u), " err=", err2, " text=", string(mt)), v.String())
	}
	if full {
		var sc dec.Decimal
		n, err3 := fmt.Sscan(s, &sc)
		w.Eval()
		if err3 != nil || n != 1 || !same(sc) {
			fail("Sscan(String)", fmt.Sprint(V(sc), " err=", err3, " text=", s), v.String())
		}
	}
}

func init() {
	Replayers["String"] = func(c eng.Case) (string, string, error) {
		b, err := ref.ParseHex(c.Args[0])
		if err != nil {
			return "", "", err
		}
		return D(b).String(), textWant(ref.Decode(b), 'g'), nil
	}
	Replayers["MarshalText"] = Replayers["String"]
	Replayers["Parse(String)"] = func(c eng.Case) (string, string, error) {
		b, err := ref.ParseHex(c.Args[0])
		if err != nil {
			return "", "", err
		}
		p, _ := dec.Parse(D(b).String())
		v := ref.Decode(b)
		if ref.SameValue(V(p), v) {
			return v.String(), v.String(), nil
		}
		return V(p).String(), v.String(), nil
	}
	Checks["C06"] = Check{C06, "exploration"}
}

func C06(r *eng.Run) {
	r.Rule = "coefficient shapes with trailing-zero cohorts K*10^z at every one of the 12288 exponents x 2 signs, plus every two-digit pair at every pair position of the digit extractor, zeros at every exponent and specials, every sequence of up to four values formatted into one reused buffer (Append(buf[:0],...)), and the values reached by operation sequences: " +
		"String, MarshalText, %v, Format/Append(e|f|g,-1) must equal the reference shortest-digits layout (strip trailing zeros, positional iff -4<=X<=5, >=2 exponent digits), and Parse/UnmarshalText/Sscan of the text must give back the same value and sign (independent decoder). " +
		"Non-trivial = everything except coefficients without trailing zeros at exponent 0."
	r.Assumptions = []string{"binary codec is the identity on bits (checked at start; decided by C12)", "the reference layout is the strconv %g/%e/%f shortest layout applied to the exact digits; it is bound to the installed strconv in C07 on every run"}
	if !CodecSanity(r) {
		return
	}
	shapes := Shapes(r.Thorough())
	if !r.Thorough() {
		shapes = dedupe(append(shapes, WordShapes()...))
	}
	shapes = dedupe(append(append(shapes, LimitShapes()...), WeylShapes(64)...))
	type cz struct{ c *big.Int }
	var coefs []*big.Int
	for _, c := range shapes {
		zs := []int{0, 1, 2, 3, 17, 18}
		if r.Thorough() {
			zs = nil
			for z := 0; z < 35; z++ {
				zs = append(zs, z)
			}
		}
		for _, z := range zs {
			cc := new(big.Int).Mul(c, ref.Pow10(z))
			if cc.Cmp(ref.Cmax) <= 0 {
				coefs = append(coefs, cc)
			}
		}
	}
	coefs = dedupe(coefs)
	r.Bounds["coefficients_with_trailing_zero_cohorts"] = len(coefs)
	r.Bounds["exponents"] = ref.MaxQ - ref.MinQ + 1
	t0 := time.Now()
	r.Par(len(coefs), func(w *eng.W, i int) {
		c := coefs[i]
		for q := ref.MinQ; q <= ref.MaxQ; q++ {
			full := q%64 == 0 || (q > -50 && q < 50) || q < ref.MinQ+8 || q > ref.MaxQ-8 || r.Thorough()
			for s := 0; s < 2; s++ {
				b := MkBits(s == 1, c, q)
				v := ref.Val{Class: ref.Fin, Neg: s == 1, C: c, Q: q}
				checkText(w, b, v, full)
			}
		}
		w.CellN(fmt.Sprintf("digits%d", ref.NumDigits(c)), int64(2*(ref.MaxQ-ref.MinQ+1)), true)
	})
	r.Phase("A1 shapes x all exponents", t0, nil)

	// digit pairs at every pair position
	t0 = time.Now()
	r.Par(100, func(w *eng.W, pair int) {
		for k := 0; k <= 17; k++ {
			base := new(big.Int).Mul(big.NewInt(int64(pair)), ref.Pow10(2*k))
			for _, filler := range []string{"", "1", "11", "1010101010101010101010101010101011"} {
				c := new(big.Int).Set(base)
				if filler != "" {
					f := bi(filler)
					// put the pair at position k inside the filler digits
					hi := new(big.Int).Quo(f, ref.Pow10(2*k+2))
					lo := new(big.Int).Mod(f, ref.Pow10(2*k))
					c = new(big.Int).Add(new(big.Int).Mul(hi, ref.Pow10(2*k+2)), new(big.Int).Add(base, lo))
				}
				if c.Sign() == 0 || c.Cmp(ref.Cmax) > 0 {
					continue
				}
				for _, q := range []int{-40, -6, -5, -1, 0, 1, 5, 6, 30} {
					b := MkBits(pair%2 == 1, c, q)
					checkText(w, b, ref.Decode(b), true)
				}
			}
		}
		w.Cell("digit-pair-sweep", true)
	})
	r.Phase("A2 digit pairs", t0, nil)

	// A2b: the round trip is exact whatever DefaultRoundingMode is (the text denotes d exactly)
	t0 = time.Now()
	saved := dec.DefaultRoundingMode
	for drm := 1; drm < 6; drm++ {
		dec.DefaultRoundingMode = LibModes[drm]
		r.Par(len(coefs), func(w *eng.W, i int) {
			if i%4 != drm%4 && !r.Thorough() {
				return
			}
			for _, q := range []int{ref.MinQ, -40, -7, -1, 0, 3, 6, 40, 3000, ref.MaxQ - 1, ref.MaxQ} {
				for s := 0; s < 2; s++ {
					b := MkBits(s == 1, coefs[i], q)
					checkText(w, b, ref.Val{Class: ref.Fin, Neg: s == 1, C: coefs[i], Q: q}, true)
				}
			}
			w.Cell("round-trip-under-"+MName(drm), true)
		})
	}
	dec.DefaultRoundingMode = saved
	r.Phase("A2b round trip under every DefaultRoundingMode", t0, nil)

	t0 = time.Now()
	r.Par(2, func(w *eng.W, s int) {
		for q := ref.MinQ; q <= ref.MaxQ; q++ {
			b := MkBits(s == 1, new(big.Int), q)
			checkText(w, b, ref.Decode(b), true)
		}
		w.CellN("zero-every-exponent", int64(ref.MaxQ-ref.MinQ+1), true)
	})
	r.Seq(func(w *eng.W) {
		for _, b := range specialOperands() {
			v := ref.Decode(b)
			if v.Class != ref.Fin {
				checkText(w, b, v, true)
				w.Cell("specials", true)
			}
		}
	})
	r.Phase("A3 zeros and specials", t0, nil)

	// S: operation sequences with the usual buffer-reuse idiom: buf = Append(buf[:0], d, ...) over every sequence of
	// up to four values from a small alphabet (specials, zeros, short and long finite values), starting from nil or
	// from the slice an earlier MarshalText returned. Every output must be the text of its own value, whatever was
	// formatted into the same memory before, and String/MarshalText of every alphabet value must be unchanged afterwards.
	t0 = time.Now()
	var seqVals []ref.Bits
	seqVals = append(seqVals, ref.FromWords(0x7c00000000000000, 0), ref.FromWords(0x7800000000000000, 0), ref.FromWords(0xf800000000000000, 0),
		MkBits(false, new(big.Int), 0), MkBits(true, big.NewInt(15), -1), MkBits(false, big.NewInt(1234), 0), MkBits(false, ref.Cmax, -20), MkBits(true, big.NewInt(1), 400))
	nv := len(seqVals)
	r.Par(nv*nv*nv*nv, func(w *eng.W, code int) {
		seq := []int{code % nv, code / nv % nv, code / nv / nv % nv, code / nv / nv / nv}
		for variant := 0; variant < 4; variant++ {
			var buf []byte
			if variant >= 2 {
				buf, _ = D(seqVals[seq[0]]).MarshalText()
			}
			for step, k := range seq {
				b := seqVals[k]
				v := ref.Decode(b)
				w.Set1I("buffer-reuse sequence", "", b, int64(code*4+variant))
				var got, want string
				if variant%2 == 0 {
					buf = dec.Append(buf[:0], D(b), 'g', -1)
					got, want = string(buf), textWant(v, 'g')
				} else {
					buf = D(b).Append(buf[:0], "v")
					got, want = string(buf), textWant(v, 'g')
				}
				w.Eval()
				if got != want {
					w.R.Fail(eng.Case{Op: "buffer-reuse sequence", Args: []string{fmt.Sprint("values ", seq, " variant ", variant, " step ", step), b.Hex()}, Got: got, Want: want})
				}
			}
		}
		if code%64 == 0 {
			for _, b := range seqVals {
				checkText(w, b, ref.Decode(b), true)
			}
		}
		w.Cell("buffer-reuse-sequences", true)
	})
	r.Bounds["buffer_reuse_sequences"] = nv * nv * nv * nv * 4
	r.Phase("S buffer-reuse sequences", t0, nil)

	// R: values reached by operation sequences on the real implementation (see reached.go)
	reachedPhase(r, "R values reached by operation sequences", reachedAll(r), func(w *eng.W, b ref.Bits, v ref.Val) {
		checkText(w, b, v, true)
	})
	r.Require("buffer-reuse-sequences", "digits1", "digits34", "digits35", "digit-pair-sweep", "zero-every-exponent", "specials")
}
