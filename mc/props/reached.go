package props

import (
	"math/big"
	"sort"
	"sync"
	"time"

	dec "github.com/woodsbury/decimal128"

	"verifmc/eng"
	"verifmc/ref"
)

// Reached states ("start from non-initial states too"): the set of finite 128-bit patterns that the real
// implementation produces by sequences of operations from a small seed set. It is an explicit-state
// breadth-first search whose transitions are real calls (Add/Sub/Mul/Quo with an operand alphabet under three
// modes, Sqrt, Cbrt, Ldexp, Round), deduplicated on the bit pattern. No transition is judged here (C01, C02,
// C08, C11 and C17 judge those operations); the states are *inputs* for the single-value judges of the other
// properties: after two operations they carry 34/35-digit coefficients with generic digits, form-2
// encodings, subnormals, values next to the range ends and whatever cohort member the library happens to
// return - encodings that no template of the shape alphabets constructs. The set depends on the
// implementation under test (a change of the returned cohort member changes it), which is harmless: every
// state is judged against the specification of the observer it is fed to, never against a stored result.

var (
	reachedOnce sync.Once
	reachedL1   []ref.Bits
	reachedL2   []ref.Bits
	reachedTr   int64
)

func reachedSeeds() []ref.Bits {
	var seeds []ref.Bits
	for _, s := range []string{"1", "-1", "2", "3", "7", "10", "0.1", "1e-7", "123456789", "9999999999999999999999999999999999",
		"12980742146337069071326240823050239", "1e34", "1e-6176", "9e-6170", "1e6111", "12980742146337069071326240823050239e6111",
		"18446744073709551615", "18446744073709551616", "340282366920938463463374607431768211455e-20", "5e-1", "-25e-2", "6.02214076e23", "-1.602176634e-19"} {
		v := ref.MustLit(s)
		seeds = append(seeds, MkBits(v.Neg, v.C, v.Q))
	}
	return seeds
}

func reachedOperands() []dec.Decimal {
	var out []dec.Decimal
	for _, s := range []string{"1", "3", "7", "0.1", "1e-30", "9.999999999999999999999999999999999", "18446744073709551616", "1.298074214633706907132624082305024", "1e-6170", "1e6100", "-2", "6e-17", "1.0000000000000000000000000000000001e3"} {
		v := ref.MustLit(s)
		out = append(out, Mk(v.Neg, v.C, v.Q))
	}
	return out
}

func reachedStep(x dec.Decimal, ops []dec.Decimal, emit func(dec.Decimal)) int64 {
	var n int64
	for _, y := range ops {
		for _, m := range []int{0, 2, 3} { // nearest-even, toward zero, away from zero
			for op := opAdd; op <= opQuo; op++ {
				emit(callArith(op, x, y, m))
				n++
			}
			emit(callArith(opQuo, y, x, m))
			n++
		}
	}
	emit(dec.Sqrt(dec.Abs(x)))
	emit(dec.Cbrt(x))
	emit(dec.Ldexp(x, 17))
	emit(dec.Ldexp(x, -19))
	emit(x.Round(3, LibModes[0]))
	emit(x.Neg())
	return n + 6
}

func buildReached() {
	ops := reachedOperands()
	seen := map[ref.Bits]struct{}{}
	level := func(front []ref.Bits) []ref.Bits {
		var next []ref.Bits
		for _, xb := range front {
			reachedTr += reachedStep(D(xb), ops, func(d dec.Decimal) {
				b := B(d)
				if ref.Decode(b).Class != ref.Fin {
					return
				}
				if _, ok := seen[b]; !ok {
					seen[b] = struct{}{}
					next = append(next, b)
				}
			})
		}
		sort.Slice(next, func(i, j int) bool { return bitsLess(next[i], next[j]) })
		return next
	}
	seeds := uniqBits(reachedSeeds())
	for _, s := range seeds {
		seen[s] = struct{}{}
	}
	reachedL1 = level(seeds)
	reachedL2 = level(reachedL1)
}

func bitsLess(a, b ref.Bits) bool {
	for i := range a {
		if a[i] != b[i] {
			return a[i] < b[i]
		}
	}
	return false
}

// ReachedStates returns the states first reached after one operation and after two operations (both sorted
// by bit pattern, so the order is independent of map iteration), and records the search in the evidence.
func ReachedStates(r *eng.Run) (l1, l2 []ref.Bits) {
	reachedOnce.Do(buildReached)
	r.Extra["reached_states"] = map[string]any{"seeds": len(reachedSeeds()), "operand_alphabet": len(reachedOperands()), "depth": 2,
		"states_depth1": len(reachedL1), "states_depth2": len(reachedL2), "transitions": reachedTr,
		"transition_menu": "Add/Sub/Mul/Quo (both operand orders for Quo) x 13 operands x {ToNearestEven,ToZero,AwayFromZero}, Sqrt(|x|), Cbrt, Ldexp(+17/-19), Round(3), Neg"}
	return reachedL1, reachedL2
}

// strideBits returns at most n elements of s, evenly strided (all of s if it is shorter).
func strideBits(s []ref.Bits, n int) []ref.Bits {
	if len(s) <= n || n <= 0 {
		return s
	}
	out := make([]ref.Bits, 0, n)
	for i := 0; i < n; i++ {
		out = append(out, s[i*len(s)/n])
	}
	return out
}

// reachedAll is l1 followed by l2.
func reachedAll(r *eng.Run) []ref.Bits {
	l1, l2 := ReachedStates(r)
	return append(append([]ref.Bits{}, l1...), l2...)
}

var _ = big.NewInt

// reachedPhase feeds the given reached states to one single-value judge, in parallel chunks, under the cell
// "reached-states" (which the property then requires: the phase cannot silently be empty).
func reachedPhase(r *eng.Run, name string, states []ref.Bits, fn func(w *eng.W, b ref.Bits, v ref.Val)) {
	t0 := time.Now()
	const chunk = 256
	n := (len(states) + chunk - 1) / chunk
	r.Par(n, func(w *eng.W, i int) {
		hi := (i + 1) * chunk
		if hi > len(states) {
			hi = len(states)
		}
		for _, b := range states[i*chunk : hi] {
			if w.Stopped() {
				return
			}
			fn(w, b, ref.Decode(b))
		}
		w.CellN("reached-states", int64(hi-i*chunk), true)
	})
	r.Bounds["reached_states_judged"] = len(states)
	r.Phase(name, t0, nil)
	r.Require("reached-states")
}
