package props

import (
	"fmt"
	"math"
	"math/big"
	"time"

	dec "github.com/woodsbury/decimal128"

	"verifmc/eng"
	"verifmc/ref"
)

var (
	e20      = ref.Pow10(20)
	twoE20   = new(big.Int).Mul(big.NewInt(2), ref.Pow10(20))
	halfPlus = new(big.Int).Add(ref.Pow10(20), big.NewInt(2)) // (1/2 + 1e-20) * 2e20
)

// rootOK decides, exactly in integers, whether r is an acceptable k-th root of |d|:
// (r - (1/2+1e-20)u)^k <= |d| <= (r + (1/2+1e-20)u)^k with u the spacing of the format at r.
func rootOK(d, r ref.Val, k int) (bool, string) {
	if r.Class != ref.Fin || r.C.Sign() == 0 {
		return false, "result is not a finite non-zero Decimal"
	}
	// normalise r to full precision: spacing u = 10^q
	c := new(big.Int).Set(r.C)
	q := r.Q
	for q > ref.MinQ {
		t := new(big.Int).Mul(c, big.NewInt(10))
		if t.Cmp(ref.Cmax) > 0 {
			break
		}
		c = t
		q--
	}
	// scaled bounds: A = 2e20*c - (1e20+2), B = 2e20*c + (1e20+2); r -/+ (1/2+eps)u = A|B * 10^q / 2e20
	A := new(big.Int).Mul(twoE20, c)
	B := new(big.Int).Add(A, halfPlus)
	A.Sub(A, halfPlus)
	kk := big.NewInt(int64(k))
	Ak := new(big.Int).Exp(A, kk, nil)
	Bk := new(big.Int).Exp(B, kk, nil)
	// compare Ak * 10^(kq) <= D*10^e * (2e20)^k <= Bk * 10^(kq)
	mid := new(big.Int).Mul(d.C, new(big.Int).Exp(twoE20, kk, nil))
	el, er := k*q, d.Q
	// bring to a common exponent
	m := el
	if er < m {
		m = er
	}
	sl := ref.Pow10(el - m)
	Ak.Mul(Ak, sl)
	Bk.Mul(Bk, sl)
	mid.Mul(mid, ref.Pow10(er-m))
	if A.Sign() > 0 && Ak.Cmp(mid) > 0 {
		return false, "result too large: |d| < (r - (1/2+1e-20)u)^k"
	}
	if Bk.Cmp(mid) < 0 {
		return false, "result too small: |d| > (r + (1/2+1e-20)u)^k"
	}
	return true, ""
}

// exactRoot returns the exact k-th root of |d| if it is a Decimal.
func exactRoot(d ref.Val, k int) (ref.Val, bool) {
	// strip trailing zeros, make exponent divisible by k
	c := new(big.Int).Set(d.C)
	q := d.Q
	for m := ((q % k) + k) % k; m != 0; m = ((q % k) + k) % k {
		c.Mul(c, big.NewInt(10))
		q--
	}
	var root *big.Int
	if k == 2 {
		root = new(big.Int).Sqrt(c)
	} else {
		root = icbrt(c)
	}
	if new(big.Int).Exp(root, big.NewInt(int64(k)), nil).Cmp(c) != 0 {
		return ref.Val{}, false
	}
	return ref.Fit(false, root, q/k)
}

func icbrt(n *big.Int) *big.Int {
	if n.Sign() == 0 {
		return new(big.Int)
	}
	// Newton from above
	x := new(big.Int).Lsh(big.NewInt(1), uint(n.BitLen()/3+1))
	three := big.NewInt(3)
	for {
		// y = (2x + n/x^2)/3
		x2 := new(big.Int).Mul(x, x)
		y := new(big.Int).Quo(n, x2)
		y.Add(y, new(big.Int).Lsh(x, 1))
		y.Quo(y, three)
		if y.Cmp(x) >= 0 {
			return x
		}
		x = y
	}
}

func checkRoot(w *eng.W, b ref.Bits, k int) {
	v := ref.Decode(b)
	name := "Sqrt"
	if k == 3 {
		name = "Cbrt"
	}
	w.Set1(name, "", b)
	var g dec.Decimal
	if k == 2 {
		g = dec.Sqrt(D(b))
	} else {
		g = dec.Cbrt(D(b))
	}
	gv := V(g)
	w.Eval()
	fail := func(want, note string) {
		w.R.Fail(eng.Case{Op: name, Args: []string{b.Hex()}, Got: gv.String(), Want: want, Note: note + "; d=" + v.String()})
	}
	switch {
	case v.Class == ref.NaN:
		return
	case v.Class == ref.Inf:
		w.Cell(name+"/inf", true)
		if k == 2 && v.Neg {
			if gv.Class != ref.NaN {
				fail("NaN", "sqrt of -Inf")
			}
		} else if !ref.SameValue(gv, v) {
			fail(v.String(), "infinite argument returns itself")
		}
		return
	case v.C.Sign() == 0:
		w.Cell(name+"/zero", true)
		if !ref.SameValue(gv, v) {
			fail(vsig(v), "zero returns itself")
		}
		return
	case k == 2 && v.Neg:
		w.Cell(name+"/negative", true)
		if gv.Class != ref.NaN {
			fail("NaN", "sqrt of a negative")
		}
		return
	}
	if gv.Class != ref.Fin || gv.Neg != v.Neg {
		fail("finite root with the sign of d", "")
		return
	}
	if ex, ok := exactRoot(v, k); ok {
		w.Cell(name+"/perfect-power", true)
		ex.Neg = v.Neg
		if !ref.SameValue(gv, ex) {
			fail(ex.String(), "perfect power: the exact root is a Decimal")
		}
		return
	}
	cls := fmt.Sprintf("%s/exp-mod%d=%d", name, k, ((v.Q%k)+k)%k)
	w.Cell(cls, true)
	if ok, why := rootOK(v, gv, k); !ok {
		fail("correctly rounded root (up to a 1e-20 ulp midpoint margin)", why)
	}
}

// hardRoots constructs arguments whose exact k-th root lies extremely close to (but more than 1e-20 ulp
// from) a rounding midpoint: m = a + eps where a is a short decimal rich in factors of two and eps = odd*5^p
// half-units, so that a^k + k*a^(k-1)*eps is itself a short decimal. d is the member nearest to m^k; it is kept
// when the root's distance from the midpoint is between 1e-19 and 1e-7 ulp (decided with 400-bit arithmetic).
func hardRoots(k int, thorough bool) []ref.Bits {
	var out []ref.Bits
	seen := map[ref.Bits]bool{}
	prec := uint(600)
	tmax := int64(80)
	if thorough {
		tmax = 400
	}
	for e2 := 0; e2 <= 18; e2 += 2 {
		for t := int64(1); t <= tmax; t++ {
			aInt := new(big.Int).Lsh(big.NewInt(t), uint(e2))
			for _, dq := range []int{0, 1, 2} {
				// a = aInt * 10^-z placed in the decade [10^(dq-1), 10^dq)
				z := ref.NumDigits(aInt) - dq
				// spacing of the format at a
				an, _ := ref.Fit(false, aInt, -z)
				c := new(big.Int).Set(an.C)
				q := an.Q
				for {
					tt := new(big.Int).Mul(c, big.NewInt(10))
					if tt.Cmp(ref.Cmax) > 0 {
						break
					}
					c, q = tt, q-1
				}
				for p := 4; p <= 24; p++ {
					for _, wv := range []int64{1, 3, 7} {
						for _, sg := range []int64{1, -1} {
							odd := new(big.Int).Exp(big.NewInt(5), big.NewInt(int64(p)), nil)
							odd.Mul(odd, big.NewInt(wv*sg))
							// m = c*10^q + odd/2 * 10^q  = (2c + odd) * 10^q / 2
							m2 := new(big.Int).Add(new(big.Int).Lsh(c, 1), odd) // 2m / 10^q
							if m2.Sign() <= 0 {
								continue
							}
							// m^k = m2^k * 10^(kq) / 2^k  = m2^k * 5^k * 10^(kq-k)
							mk := new(big.Int).Exp(m2, big.NewInt(int64(k)), nil)
							mk.Mul(mk, new(big.Int).Exp(big.NewInt(5), big.NewInt(int64(k)), nil))
							dv, _ := ref.Round(false, mk, big.NewInt(1), k*q-k, ref.NearestEven)
							if dv.Class != ref.Fin || dv.C.Sign() == 0 {
								continue
							}
							// distance of root(d) from m in ulps: (d - m^k) / (k m^(k-1) u)
							df := new(big.Float).SetPrec(prec).SetInt(dv.C)
							scale := func(f *big.Float, e int) {
								if e >= 0 {
									f.Mul(f, new(big.Float).SetPrec(prec).SetInt(ref.Pow10(e)))
								} else {
									f.Quo(f, new(big.Float).SetPrec(prec).SetInt(ref.Pow10(-e)))
								}
							}
							scale(df, dv.Q)
							mkf := new(big.Float).SetPrec(prec).SetInt(mk)
							scale(mkf, k*q-k)
							num := new(big.Float).SetPrec(prec).Sub(df, mkf)
							if num.Sign() == 0 {
								continue // root exactly on a midpoint: the property does not decide it
							}
							mf := new(big.Float).SetPrec(prec).SetInt(m2)
							scale(mf, q)
							mf.Quo(mf, big.NewFloat(2))
							den := new(big.Float).SetPrec(prec).SetInt64(int64(k))
							for i := 0; i < k-1; i++ {
								den.Mul(den, mf)
							}
							uf := new(big.Float).SetPrec(prec).SetInt64(1)
							scale(uf, q)
							den.Mul(den, uf)
							dist := num.Quo(num, den)
							dist.Abs(dist)
							lo, _ := new(big.Float).SetString("1e-19")
							hi, _ := new(big.Float).SetString("1e-7")
							if dist.Cmp(lo) < 0 || dist.Cmp(hi) > 0 {
								continue
							}
							b := MkBits(false, dv.C, dv.Q)
							if !seen[b] {
								seen[b] = true
								out = append(out, b)
							}
						}
					}
				}
			}
		}
	}
	return out
}

// henselSqrt constructs square-root arguments whose root lies a prescribed tiny distance above or below a rounding
// midpoint, by solving M^2 + t = 4*10^E * D for odd M (the midpoint numerator) with Hensel lifting modulo 2^(E+2) and
// 5^E and the Chinese remainder theorem: the distance of sqrt(D*10^e0) from the midpoint M/2 ulp is t/(4M) ulp, so a
// ladder of |t| gives distances from about 1e-20 to 1e-9 ulp on both sides. (No such construction exists for cube
// roots: cubing is a bijection modulo 2^a 5^b, so the midpoint is determined by t and almost never in range.)
func henselSqrt(nT int) []ref.Bits {
	var out []ref.Bits
	seen := map[ref.Bits]bool{}
	for _, e0 := range []int{0, 1} {
		E := 34 - e0 // 4*10^E*D = M^2 + t, with D*10^e0 having up to 34+e0 digits and the root 34 digits
		p2 := new(big.Int).Lsh(big.NewInt(1), uint(E+2))
		p5 := new(big.Int).Exp(big.NewInt(5), big.NewInt(int64(E)), nil)
		mod := new(big.Int).Mul(p2, p5)
		inv2 := new(big.Int).ModInverse(p2, p5) // for CRT
		// ladder of t: geometric from 3e14 to 4e25, both signs
		tv := new(big.Float).SetFloat64(3e14)
		ratio := new(big.Float).SetFloat64(1.0)
		if nT > 1 {
			// (4e25/3e14)^(1/(nT-1))
			f, _ := new(big.Float).SetFloat64(0).Float64()
			_ = f
		}
		for i := 0; i < nT; i++ {
			// t_i = 3e14 * 10^(11.1*i/(nT-1))
			ex := 11.1 * float64(i) / float64(maxi(nT-1, 1))
			tf := new(big.Float).Mul(tv, new(big.Float).SetFloat64(pow10f(ex)))
			_ = ratio
			t0, _ := tf.Int(nil)
			for _, sgn := range []int64{1, -1} {
				// find t near t0 with sgn*t ... such that -t is a square mod 8 (== 1) and mod 5 (in {1,4})
				for bump := int64(0); bump < 200; bump++ {
					t := new(big.Int).Add(t0, big.NewInt(bump))
					t.Mul(t, big.NewInt(sgn))
					a := new(big.Int).Neg(t) // need M^2 == a
					a8 := new(big.Int).Mod(a, big.NewInt(8)).Int64()
					a5 := new(big.Int).Mod(a, big.NewInt(5)).Int64()
					if a8 != 1 || (a5 != 1 && a5 != 4) {
						continue
					}
					// sqrt mod 2^(E+2)
					x2 := big.NewInt(1)
					for k := 3; k < E+2; k++ {
						m := new(big.Int).Lsh(big.NewInt(1), uint(k+1))
						sq := new(big.Int).Mul(x2, x2)
						sq.Sub(sq, a).Mod(sq, m)
						if sq.Sign() != 0 {
							x2 = new(big.Int).Add(x2, new(big.Int).Lsh(big.NewInt(1), uint(k-1)))
						}
					}
					// sqrt mod 5^E by Newton lifting
					x5 := big.NewInt(1)
					if a5 == 4 {
						x5 = big.NewInt(2)
					}
					pk := big.NewInt(5)
					for pk.Cmp(p5) < 0 {
						pk = new(big.Int).Mul(pk, pk)
						if pk.Cmp(p5) > 0 {
							pk = p5
						}
						// x = x - (x^2 - a) / (2x) mod pk
						num := new(big.Int).Mul(x5, x5)
						num.Sub(num, a)
						den := new(big.Int).ModInverse(new(big.Int).Lsh(x5, 1), pk)
						num.Mul(num, den)
						x5 = new(big.Int).Sub(x5, num)
						x5.Mod(x5, pk)
					}
					okRoot := func(x, m *big.Int) bool {
						z := new(big.Int).Mul(x, x)
						z.Sub(z, a).Mod(z, m)
						return z.Sign() == 0
					}
					if !okRoot(x2, p2) || !okRoot(x5, p5) {
						break
					}
					half := new(big.Int).Rsh(p2, 1)
					for _, r2 := range []*big.Int{x2, new(big.Int).Sub(p2, x2), new(big.Int).Mod(new(big.Int).Add(x2, half), p2), new(big.Int).Mod(new(big.Int).Sub(new(big.Int).Add(p2, half), x2), p2)} {
						for _, r5 := range []*big.Int{x5, new(big.Int).Sub(p5, x5)} {
							// CRT: M = r2 + p2 * ((r5 - r2) * inv2 mod p5)
							k := new(big.Int).Sub(r5, r2)
							k.Mul(k, inv2).Mod(k, p5)
							M := new(big.Int).Add(r2, new(big.Int).Mul(p2, k))
							M.Mod(M, mod)
							if M.Bit(0) == 0 {
								continue
							}
							// D = (M^2 + t) / (4*10^E)
							D := new(big.Int).Mul(M, M)
							D.Add(D, t)
							var rem big.Int
							D.QuoRem(D, new(big.Int).Mul(big.NewInt(4), ref.Pow10(E)), &rem)
							if rem.Sign() != 0 || D.Sign() <= 0 || D.Cmp(ref.Cmax) > 0 {
								continue
							}
							// the root must have 34 or 35 digits at that scale: R = (M-1)/2 in [10^33, Cmax]
							R := new(big.Int).Rsh(M, 1)
							if R.Cmp(ref.Pow10(33)) < 0 || R.Cmp(ref.Cmax) > 0 {
								continue
							}
							for _, sh := range []int{0, 2, -40, 400} {
								b := MkBits(false, D, e0+sh)
								if !seen[b] {
									seen[b] = true
									out = append(out, b)
								}
							}
						}
					}
					break
				}
			}
		}
	}
	return out
}

func pow10f(x float64) float64 { return math.Pow(10, x) }

func init() {
	for _, k := range []int{2, 3} {
		k := k
		name := map[int]string{2: "Sqrt", 3: "Cbrt"}[k]
		Replayers[name] = func(c eng.Case) (string, string, error) {
			b, err := ref.ParseHex(c.Args[0])
			if err != nil {
				return "", "", err
			}
			v := ref.Decode(b)
			var g dec.Decimal
			if k == 2 {
				g = dec.Sqrt(D(b))
			} else {
				g = dec.Cbrt(D(b))
			}
			if v.Class == ref.Fin && v.C.Sign() != 0 && !(k == 2 && v.Neg) {
				if ok, why := rootOK(v, V(g), k); !ok {
					return V(g).String(), c.Want + " (" + why + ")", nil
				}
				return "ok", "ok", nil
			}
			return V(g).String(), c.Want, nil
		}
	}
	Checks["C17"] = Check{C17, "exploration"}
}

func C17(r *eng.Run) {
	r.Rule = "d = K*10^e for coefficient shapes K (with trailing-zero cohorts) x every exponent for a subset and exponent windows for all (all parity and mod-3 classes, subnormal arguments, range ends), " +
		"perfect squares and cubes of the shapes (roots up to 17/11 digits, times powers of ten) and their +-1 ulp neighbours, every leading-digit prefix; both Sqrt and Cbrt, both signs for Cbrt; specials/zeros/negatives per the table. " +
		"Decided exactly in big integers as the property prescribes: (r -/+ (1/2+1e-20)u)^k against |d| with u the spacing at r; perfect powers must give the exact root. Non-trivial = everything (no result is taken on trust)."
	r.Assumptions = []string{"binary codec is the identity on bits (checked at start; decided by C12)"}
	if !CodecSanity(r) {
		return
	}
	shapes := Shapes(r.Thorough())
	if !r.Thorough() {
		shapes = dedupe(append(shapes, WordShapes()...))
	}
	small := SmallShapes()
	t0 := time.Now()
	// every exponent for the small set
	type job struct {
		c *big.Int
		q int
	}
	var jobs []job
	step := 3
	if r.Thorough() {
		step = 1
	}
	for i, c := range small {
		for q := ref.MinQ; q <= ref.MaxQ; q++ {
			if (q+i)%step == 0 || q < ref.MinQ+40 || q > ref.MaxQ-40 {
				jobs = append(jobs, job{c, q})
			}
		}
	}
	for _, c := range shapes {
		for q := -45; q <= 12; q++ {
			jobs = append(jobs, job{c, q})
		}
		for _, q := range []int{ref.MinQ, ref.MinQ + 1, ref.MinQ + 2, ref.MaxQ - 2, ref.MaxQ - 1, ref.MaxQ, -3001, -3000, 2999, 3000} {
			jobs = append(jobs, job{c, q})
		}
	}
	nl := 2
	if r.Thorough() {
		nl = 3
	}
	for _, c := range LeadSweep(nl) {
		for _, q := range []int{-34, -33, -32, -2, -1, 0, 1, 2, 3} {
			jobs = append(jobs, job{c, q})
			if long := new(big.Int).Add(new(big.Int).Mul(c, ref.Pow10(32)), big.NewInt(1)); long.Cmp(ref.Cmax) <= 0 {
				jobs = append(jobs, job{long, q - 32})
			} else {
				jobs = append(jobs, job{new(big.Int).Add(new(big.Int).Mul(c, ref.Pow10(31)), big.NewInt(1)), q - 31})
			}
		}
	}
	r.Bounds["finite_arguments"] = len(jobs)
	r.Par(len(jobs), func(w *eng.W, i int) {
		j := jobs[i]
		b := MkBits(false, j.c, j.q)
		checkRoot(w, b, 2)
		checkRoot(w, b, 3)
		checkRoot(w, MkBits(true, j.c, j.q), 3)
		if i%64 == 0 {
			checkRoot(w, MkBits(true, j.c, j.q), 2)
		}
	})
	r.Phase("shapes x exponents", t0, nil)

	// perfect powers and neighbours
	t0 = time.Now()
	var pp []ref.Bits
	addv := func(c *big.Int, q int) {
		if v, ok := ref.Fit(false, c, q); ok && v.C.Sign() != 0 {
			pp = append(pp, MkBits(false, v.C, v.Q))
			for _, d := range []int64{-1, 1} {
				// +-1 ulp neighbour at full precision
				cc := new(big.Int).Set(v.C)
				qq := v.Q
				for qq > ref.MinQ {
					t := new(big.Int).Mul(cc, big.NewInt(10))
					if t.Cmp(ref.Cmax) > 0 {
						break
					}
					cc, qq = t, qq-1
				}
				cc.Add(cc, big.NewInt(d))
				if cc.Sign() > 0 && cc.Cmp(ref.Cmax) <= 0 {
					pp = append(pp, MkBits(false, cc, qq))
				}
			}
		}
	}
	for _, c := range shapes {
		if ref.NumDigits(c) <= 17 {
			sq := new(big.Int).Mul(c, c)
			for _, q := range []int{-40, -7, -6, -1, 0, 1, 2, 50, ref.MinQ, ref.MaxQ - 34} {
				addv(sq, q)
			}
		}
		if ref.NumDigits(c) <= 11 {
			cb := new(big.Int).Mul(new(big.Int).Mul(c, c), c)
			for _, q := range []int{-42, -9, -3, -2, -1, 0, 1, 2, 3, 51, ref.MinQ, ref.MinQ + 1, ref.MaxQ - 34} {
				addv(cb, q)
			}
		}
	}
	for n := int64(1); n <= 2000; n++ {
		addv(big.NewInt(n*n), 0)
		addv(big.NewInt(n*n), -2)
		addv(big.NewInt(n*n*n), 0)
		addv(big.NewInt(n*n*n), -3)
	}
	r.Bounds["perfect_powers_and_neighbours"] = len(pp)
	r.Par(len(pp), func(w *eng.W, i int) {
		checkRoot(w, pp[i], 2)
		checkRoot(w, pp[i], 3)
		nb := pp[i]
		nb[0] |= 0x80
		checkRoot(w, nb, 3)
	})
	r.Seq(func(w *eng.W) {
		for _, b := range specialOperands() {
			checkRoot(w, b, 2)
			checkRoot(w, b, 3)
		}
	})
	r.Phase("perfect powers, specials", t0, nil)

	// roots within 1e-19..1e-7 ulp of a rounding midpoint (where an iteration that stops slightly early shows)
	t0 = time.Now()
	nT := 600
	if r.Thorough() {
		nT = 6000
	}
	hs := henselSqrt(nT)
	r.Bounds["hensel_sqrt_arguments"] = len(hs)
	r.Par(len(hs), func(w *eng.W, i int) {
		checkRoot(w, hs[i], 2)
		w.Cell("Sqrt/near-midpoint-hensel", true)
	})
	h2, h3 := hardRoots(2, r.Thorough()), hardRoots(3, r.Thorough())
	r.Bounds["near_midpoint_sqrt_arguments"] = len(h2)
	r.Bounds["near_midpoint_cbrt_arguments"] = len(h3)
	r.Par(len(h2), func(w *eng.W, i int) {
		checkRoot(w, h2[i], 2)
		w.Cell("Sqrt/near-midpoint", true)
		// the same digits two and one decades up (both exponent parities)
		v := ref.Decode(h2[i])
		if v.Q+2 <= ref.MaxQ {
			checkRoot(w, MkBits(false, v.C, v.Q+2), 2)
		}
	})
	r.Par(len(h3), func(w *eng.W, i int) {
		checkRoot(w, h3[i], 3)
		nb := h3[i]
		nb[0] |= 0x80
		checkRoot(w, nb, 3)
		w.Cell("Cbrt/near-midpoint", true)
		v := ref.Decode(h3[i])
		if v.Q+3 <= ref.MaxQ {
			checkRoot(w, MkBits(false, v.C, v.Q+3), 3)
		}
	})
	r.Phase("near-midpoint roots", t0, nil)

	// R: values reached by operation sequences
	reachedPhase(r, "R values reached by operation sequences", reachedAll(r), func(w *eng.W, b ref.Bits, v ref.Val) {
		if !v.Neg || v.C.Sign() == 0 {
			checkRoot(w, b, 2)
		}
		checkRoot(w, b, 3)
	})
	r.Require("Sqrt/perfect-power", "Cbrt/perfect-power", "Sqrt/exp-mod2=0", "Sqrt/exp-mod2=1", "Cbrt/exp-mod3=0", "Cbrt/exp-mod3=1", "Cbrt/exp-mod3=2", "Sqrt/negative", "Sqrt/zero", "Cbrt/inf", "Sqrt/near-midpoint", "Cbrt/near-midpoint", "Sqrt/near-midpoint-hensel")
}
