package props

import (
	"bytes"
	"encoding/json"
	"errors"
	"fmt"
	"go/ast"
	"go/parser"
	"go/token"
	"io"
	"math"
	"math/big"
	"os"
	"os/exec"
	"path/filepath"
	"sort"
	"strings"
	"sync"
	"time"
	"unicode/utf8"

	dec "github.com/woodsbury/decimal128"

	"verifmc/eng"
	"verifmc/instr"
	"verifmc/ref"
)

// ---- totality / purity (in-process, uninstrumented build) ---------------------------------------

// guard runs f and reports whether it panicked.
func guard(f func()) (panicked bool, msg string) {
	defer func() {
		if e := recover(); e != nil {
			panicked, msg = true, fmt.Sprint(e)
		}
	}()
	f()
	return false, ""
}

type totCall struct {
	name string
	f    func(d dec.Decimal) string // observation (also used for determinism)
	// documented panic condition on the receiver/operand class
	panics func(v ref.Val) bool
	heavy  bool
}

func onNaN(v ref.Val) bool      { return v.Class == ref.NaN }
func onSpecial(v ref.Val) bool  { return v.Class != ref.Fin }
func onNotNaN(v ref.Val) bool   { return v.Class != ref.NaN }
func never(v ref.Val) bool      { return false }
func bstr(d dec.Decimal) string { return B(d).Hex() }

var intExtremes = []int{math.MinInt, math.MinInt + 1, -1 << 31, -1<<31 - 1, -1 << 15, -1<<15 - 1, -100001, -100000, -6177, -6176, -41, -1, 0, 1, 34, 35, 41, 1000, 6111, 6176, 99999, 100000, 100001, 1<<15 - 1, 1 << 15, 1<<31 - 1, 1 << 31, math.MaxInt - 1, math.MaxInt}

func unaryTotalCalls() []totCall {
	cs := []totCall{
		{"Abs", func(d dec.Decimal) string { return bstr(dec.Abs(d)) }, never, false},
		{"Decimal.Neg", func(d dec.Decimal) string { return bstr(d.Neg()) }, never, false},
		{"Decimal.Canonical", func(d dec.Decimal) string { return bstr(d.Canonical()) }, never, false},
		{"Decimal.IsNaN", func(d dec.Decimal) string { return fmt.Sprint(d.IsNaN()) }, never, false},
		{"Decimal.IsInf", func(d dec.Decimal) string {
			return fmt.Sprint(d.IsInf(0), d.IsInf(1), d.IsInf(-1), d.IsInf(math.MinInt), d.IsInf(math.MaxInt))
		}, never, false},
		{"Decimal.IsZero", func(d dec.Decimal) string { return fmt.Sprint(d.IsZero()) }, never, false},
		{"Decimal.Signbit", func(d dec.Decimal) string { return fmt.Sprint(d.Signbit()) }, never, false},
		{"Decimal.Sign", func(d dec.Decimal) string { return fmt.Sprint(d.Sign()) }, onNaN, false},
		{"Decimal.Payload", func(d dec.Decimal) string { p := d.Payload(); return fmt.Sprint(uint64(p), p.String()) }, onNotNaN, false},
		{"Decimal.String", func(d dec.Decimal) string { return d.String() }, never, false},
		{"Decimal.MarshalText", func(d dec.Decimal) string { b, e := d.MarshalText(); return fmt.Sprint(string(b), e) }, never, false},
		{"Decimal.MarshalJSON", func(d dec.Decimal) string { b, e := d.MarshalJSON(); return fmt.Sprint(string(b), e != nil) }, never, false},
		{"Decimal.MarshalBinary", func(d dec.Decimal) string { b, e := d.MarshalBinary(); return fmt.Sprintf("%x %v", b, e) }, never, false},
		{"Decimal.Decompose", func(d dec.Decimal) string { f, n, c, e := d.Decompose(nil); return fmt.Sprint(f, n, c, e) }, never, false},
		{"Decimal.Float64", func(d dec.Decimal) string { return fmt.Sprintf("%x", math.Float64bits(d.Float64())) }, never, false},
		{"Decimal.Float32", func(d dec.Decimal) string { return fmt.Sprintf("%x", math.Float32bits(d.Float32())) }, never, false},
		{"Decimal.Float", func(d dec.Decimal) string { return d.Float(nil).Text('p', 0) }, onNaN, true},
		{"Decimal.Float", func(d dec.Decimal) string {
			return d.Float(new(big.Float).SetPrec(24)).Text('p', 0) + d.Float(new(big.Float).SetPrec(113)).Text('p', 0)
		}, onNaN, true},
		{"Decimal.Int", func(d dec.Decimal) string { return fmt.Sprint(d.Int(big.NewInt(-5)).BitLen()) }, onSpecial, true},
		{"Decimal.Int", func(d dec.Decimal) string { return fmt.Sprint(d.Int(nil).BitLen()) }, onSpecial, true},
		{"Decimal.Rat", func(d dec.Decimal) string { r := d.Rat(nil); return fmt.Sprint(r.Num().BitLen(), r.Denom().BitLen()) }, onSpecial, true},
		{"Decimal.Int64", func(d dec.Decimal) string { return fmt.Sprint(d.Int64()) }, onNaN, false},
		{"Decimal.Int32", func(d dec.Decimal) string { return fmt.Sprint(d.Int32()) }, onNaN, false},
		{"Decimal.Uint64", func(d dec.Decimal) string { return fmt.Sprint(d.Uint64()) }, onNaN, false},
		{"Decimal.Uint32", func(d dec.Decimal) string { return fmt.Sprint(d.Uint32()) }, onNaN, false},
		{"Frexp", func(d dec.Decimal) string { f, e := dec.Frexp(d); return fmt.Sprint(bstr(f), e) }, never, false},
		{"Ceil", func(d dec.Decimal) string { return bstr(dec.Ceil(d)) }, never, false},
		{"Floor", func(d dec.Decimal) string { return bstr(dec.Floor(d)) }, never, false},
		{"Round", func(d dec.Decimal) string { return bstr(dec.Round(d)) }, never, false},
		{"Trunc", func(d dec.Decimal) string { return bstr(dec.Trunc(d)) }, never, false},
		{"Exp", func(d dec.Decimal) string { return bstr(dec.Exp(d)) }, never, true},
		{"Exp2", func(d dec.Decimal) string { return bstr(dec.Exp2(d)) }, never, true},
		{"Exp10", func(d dec.Decimal) string { return bstr(dec.Exp10(d)) }, never, true},
		{"Expm1", func(d dec.Decimal) string { return bstr(dec.Expm1(d)) }, never, true},
		{"Log", func(d dec.Decimal) string { return bstr(dec.Log(d)) }, never, true},
		{"Log2", func(d dec.Decimal) string { return bstr(dec.Log2(d)) }, never, true},
		{"Log10", func(d dec.Decimal) string { return bstr(dec.Log10(d)) }, never, true},
		{"Log1p", func(d dec.Decimal) string { return bstr(dec.Log1p(d)) }, never, true},
		{"Sqrt", func(d dec.Decimal) string { return bstr(dec.Sqrt(d)) }, never, true},
		{"Cbrt", func(d dec.Decimal) string { return bstr(dec.Cbrt(d)) }, never, true},
		{"Decimal.Format(fmt.State)", func(d dec.Decimal) string {
			return fmt.Sprintf("%v|%e|%.3f|%+g|%10.2E|%-8G|%#v|%s|%d|%x|%q|%08.3f|% f", d, d, d, d, d, d, d, d, d, d, d, d, d)
		}, never, false},
	}
	for _, x := range intExtremes {
		x := x
		cs = append(cs,
			totCall{"Decimal.Ceil", func(d dec.Decimal) string { return bstr(d.Ceil(x)) }, never, false},
			totCall{"Decimal.Floor", func(d dec.Decimal) string { return bstr(d.Floor(x)) }, never, false},
			totCall{"Decimal.Round", func(d dec.Decimal) string {
				var s string
				for m := 0; m < 6; m++ {
					s += bstr(d.Round(x, LibModes[m]))
				}
				return s + bstr(d.Round(x, dec.RoundingMode(200)))
			}, never, false},
			totCall{"Ldexp", func(d dec.Decimal) string { return bstr(dec.Ldexp(d, x)) }, never, false},
		)
	}
	for _, p := range []int{-1, 0, 1, 34, 35, 36, 41, 1000, 99999, 100000, 100001, -2, math.MinInt, math.MaxInt} {
		p := p
		heavy := p > 1000
		for _, verb := range []byte("eEfgGvx\x00") {
			verb := verb
			if p == math.MaxInt && (verb == 'e' || verb == 'E' || verb == 'f') {
				continue // documented meaning would require an unbounded output; see DESIGN (not claimed)
			}
			cs = append(cs, totCall{"Format", func(d dec.Decimal) string {
				s := dec.Format(d, verb, p)
				return fmt.Sprint(len(s), s[:minInt(len(s), 40)])
			}, never, heavy},
				totCall{"Append", func(d dec.Decimal) string {
					s := dec.Append([]byte("zz"), d, verb, p)
					return fmt.Sprint(len(s), string(s[:minInt(len(s), 40)]))
				}, never, heavy})
		}
	}
	return cs
}

func binaryTotalCalls() []struct {
	name string
	f    func(x, y dec.Decimal) string
} {
	type bc = struct {
		name string
		f    func(x, y dec.Decimal) string
	}
	out := []bc{
		{"Decimal.Add", func(x, y dec.Decimal) string { return bstr(x.Add(y)) }},
		{"Decimal.Sub", func(x, y dec.Decimal) string { return bstr(x.Sub(y)) }},
		{"Decimal.Mul", func(x, y dec.Decimal) string { return bstr(x.Mul(y)) }},
		{"Decimal.Quo", func(x, y dec.Decimal) string { return bstr(x.Quo(y)) }},
		{"Decimal.QuoRem", func(x, y dec.Decimal) string { q, r := x.QuoRem(y); return bstr(q) + bstr(r) }},
		{"Decimal.Pow", func(x, y dec.Decimal) string { return bstr(x.Pow(y)) }},
		{"Decimal.Cmp", func(x, y dec.Decimal) string {
			c := x.Cmp(y)
			return fmt.Sprint(int(c), c.Equal(), c.Greater(), c.GreaterOrEqual(), c.Less(), c.LessOrEqual())
		}},
		{"Decimal.CmpAbs", func(x, y dec.Decimal) string { return fmt.Sprint(int(x.CmpAbs(y))) }},
		{"Decimal.Equal", func(x, y dec.Decimal) string { return fmt.Sprint(x.Equal(y)) }},
		{"Compare", func(x, y dec.Decimal) string { return fmt.Sprint(dec.Compare(x, y)) }},
		{"Min", func(x, y dec.Decimal) string { return bstr(dec.Min(x, y)) }},
		{"Max", func(x, y dec.Decimal) string { return bstr(dec.Max(x, y)) }},
	}
	for m := 0; m < 7; m++ {
		mode := dec.RoundingMode(m)
		if m == 6 {
			mode = dec.RoundingMode(255) // not one of the six constants: must still terminate without panicking
		}
		out = append(out,
			bc{"Decimal.AddWithMode", func(x, y dec.Decimal) string { return bstr(x.AddWithMode(y, mode)) }},
			bc{"Decimal.SubWithMode", func(x, y dec.Decimal) string { return bstr(x.SubWithMode(y, mode)) }},
			bc{"Decimal.MulWithMode", func(x, y dec.Decimal) string { return bstr(x.MulWithMode(y, mode)) }},
			bc{"Decimal.QuoWithMode", func(x, y dec.Decimal) string { return bstr(x.QuoWithMode(y, mode)) }},
			bc{"Decimal.QuoRemWithMode", func(x, y dec.Decimal) string { q, r := x.QuoRemWithMode(y, mode); return bstr(q) + bstr(r) }},
			bc{"Decimal.PowWithMode", func(x, y dec.Decimal) string { return bstr(x.PowWithMode(y, mode)) }})
	}
	return out
}

// exported API names covered by the tables above or by the dedicated phases below
var coveredAPI = []string{"Abs", "Append", "Cbrt", "Ceil", "Compare", "E", "Exp", "Exp10", "Exp2", "Expm1", "Floor", "Format", "Frexp", "FromFloat", "FromFloat32", "FromFloat64", "FromInt", "FromInt32", "FromInt64",
	"FromRat", "FromUint32", "FromUint64", "Inf", "Ldexp", "Log", "Log10", "Log1p", "Log2", "Max", "Min", "MustParse", "NaN", "New", "Parse", "Phi", "Pi", "Round", "Sqrt", "Trunc",
	"CmpResult.Equal", "CmpResult.Greater", "CmpResult.GreaterOrEqual", "CmpResult.Less", "CmpResult.LessOrEqual", "RoundingMode.String", "Payload.String",
	"Decimal.Add", "Decimal.AddWithMode", "Decimal.Append", "Decimal.Canonical", "Decimal.Ceil", "Decimal.Cmp", "Decimal.CmpAbs", "Decimal.Compose", "Decimal.Decompose", "Decimal.Equal", "Decimal.Float", "Decimal.Float32",
	"Decimal.Float64", "Decimal.Floor", "Decimal.Format", "Decimal.Int", "Decimal.Int32", "Decimal.Int64", "Decimal.IsInf", "Decimal.IsNaN", "Decimal.IsZero", "Decimal.MarshalBinary", "Decimal.MarshalJSON", "Decimal.MarshalText",
	"Decimal.Mul", "Decimal.MulWithMode", "Decimal.Neg", "Decimal.Payload", "Decimal.Pow", "Decimal.PowWithMode", "Decimal.Quo", "Decimal.QuoRem", "Decimal.QuoRemWithMode", "Decimal.QuoWithMode", "Decimal.Rat", "Decimal.Round",
	"Decimal.Scan", "Decimal.Sign", "Decimal.Signbit", "Decimal.String", "Decimal.Sub", "Decimal.SubWithMode", "Decimal.Uint32", "Decimal.Uint64", "Decimal.UnmarshalBinary", "Decimal.UnmarshalJSON", "Decimal.UnmarshalText"}

func exportedAPI(repo string) ([]string, error) {
	fset := token.NewFileSet()
	pkgs, err := parser.ParseDir(fset, repo, func(fi os.FileInfo) bool { return !strings.HasSuffix(fi.Name(), "_test.go") }, 0)
	if err != nil {
		return nil, err
	}
	var out []string
	for _, p := range pkgs {
		for _, f := range p.Files {
			for _, d := range f.Decls {
				fd, ok := d.(*ast.FuncDecl)
				if !ok || !fd.Name.IsExported() {
					continue
				}
				name := fd.Name.Name
				if fd.Recv != nil && len(fd.Recv.List) == 1 {
					t := fd.Recv.List[0].Type
					if st, ok := t.(*ast.StarExpr); ok {
						t = st.X
					}
					id, ok := t.(*ast.Ident)
					if !ok || !id.IsExported() {
						continue
					}
					name = id.Name + "." + name
				}
				out = append(out, name)
			}
		}
	}
	sort.Strings(out)
	return out, nil
}

type errState struct {
	failAt, n int
	flags     string
	wid, prec int
}

func (s *errState) Write(b []byte) (int, error) {
	s.n++
	if s.n == s.failAt {
		return 0, errors.New("injected write error")
	}
	return len(b), nil
}
func (s *errState) Width() (int, bool)     { return s.wid, s.wid >= 0 }
func (s *errState) Precision() (int, bool) { return s.prec, s.prec >= 0 }
func (s *errState) Flag(c int) bool        { return strings.ContainsRune(s.flags, rune(c)) }

type errScan struct {
	r         *strings.Reader
	failAt, n int
}

func (s *errScan) step() error {
	s.n++
	if s.n == s.failAt {
		return errors.New("injected read error")
	}
	return nil
}
func (s *errScan) ReadRune() (rune, int, error) {
	if err := s.step(); err != nil {
		return 0, 0, err
	}
	return s.r.ReadRune()
}
func (s *errScan) UnreadRune() error { return s.r.UnreadRune() }
func (s *errScan) SkipSpace() {
	for {
		r, _, err := s.r.ReadRune()
		if err != nil {
			return
		}
		if r != ' ' && r != '\t' && r != '\n' {
			s.r.UnreadRune()
			return
		}
	}
}
func (s *errScan) Token(skip bool, f func(rune) bool) ([]byte, error) {
	if err := s.step(); err != nil {
		return nil, err
	}
	if skip {
		s.SkipSpace()
	}
	var out []byte
	for {
		r, _, err := s.r.ReadRune()
		if err != nil {
			break
		}
		if f != nil && !f(r) || f == nil && (r == ' ' || r == '\n') {
			s.r.UnreadRune()
			break
		}
		out = utf8.AppendRune(out, r)
	}
	return out, nil
}
func (s *errScan) Width() (int, bool)         { return 0, false }
func (s *errScan) Read(b []byte) (int, error) { return 0, io.EOF }

func totalityPatterns(thorough bool) []ref.Bits {
	var out []ref.Bits
	low := [][2]uint64{{0, 0}, {0x7fffffffffff, ^uint64(0)}, {0x123456789abc, 0xdef0123456789abc}}
	for top := 0; top < 1<<17; top++ {
		for _, l := range low {
			out = append(out, ref.FromWords(uint64(top)<<47|l[0], l[1]))
		}
	}
	return out
}

func c20Totality(r *eng.Run) {
	t0 := time.Now()
	// self-check: every exported function/method is mapped
	api, err := exportedAPI(RepoDir())
	if err != nil {
		r.SelfFail("cannot enumerate the exported API: %v", err)
	} else {
		cov := map[string]bool{}
		for _, n := range coveredAPI {
			cov[n] = true
		}
		var missing []string
		for _, n := range api {
			if !cov[n] {
				missing = append(missing, n)
			}
		}
		r.Extra["exported_entry_points"] = len(api)
		if len(missing) > 0 {
			// a new exported entry point is not a violation; it is reported so the table can be extended
			r.Extra["exported_entry_points_without_a_totality_driver"] = missing
		}
	}
	pats := totalityPatterns(r.Thorough())
	ucalls := unaryTotalCalls()
	r.Bounds["totality_bit_patterns"] = len(pats)
	r.Bounds["unary_calls_per_pattern"] = len(ucalls)
	r.Par(len(pats), func(w *eng.W, i int) {
		b := pats[i]
		v := ref.Decode(b)
		d := D(b)
		sparse := i%97 != 0 && v.Class == ref.Fin && (b.Hi()>>47)&0x3f != 0
		for _, c := range ucalls {
			// the elementary functions and big conversions run on every exponent for two of the three low-bit
			// shapes; only the very large outputs (precision above 1000) are thinned out
			if c.heavy && sparse && (c.name == "Format" || c.name == "Append" || i%3 == 0) {
				continue
			}
			w.Set1(c.name, "", b)
			var o1, o2 string
			p, msg := guard(func() { o1 = c.f(d) })
			w.Eval()
			want := c.panics(v)
			cell := "total/returns"
			if want {
				cell = "total/documented-panic"
			}
			w.Cell(cell, want)
			if p && !want {
				w.R.Fail(eng.Case{Op: "total:" + c.name, Args: []string{b.Hex()}, Got: fmt.Sprint("panicked=", p, " ", msg), Want: fmt.Sprint("panics=", want), Note: v.String()})
				continue
			}
			if want && !p {
				// the property permits the documented panics, it does not demand them: a change that returns a
				// value instead is not a violation of totality (counted, not flagged)
				w.Cell("total/documented-panic-absent", true)
			}
			if p {
				continue
			}
			if strings.Contains(o1, "PANIC=") {
				w.R.Fail(eng.Case{Op: "total:" + c.name, Args: []string{b.Hex()}, Got: trunc(o1), Want: "no panic inside fmt", Note: v.String()})
			}
			if !p && i%16 == 0 {
				// determinism: the same call again gives the same observation
				guard(func() { o2 = c.f(d) })
				if o1 != o2 {
					w.R.Fail(eng.Case{Op: "pure:" + c.name, Args: []string{b.Hex()}, Got: trunc(o2), Want: trunc(o1) + " (same call, same result)"})
				}
			}
			if B(d) != b {
				w.R.Fail(eng.Case{Op: "pure:" + c.name, Args: []string{b.Hex()}, Got: "receiver modified", Want: "receiver untouched"})
			}
		}
	})
	r.Phase("totality: unary entry points x all top-17-bit patterns", t0, nil)

	t0 = time.Now()
	ops := append(specialOperands(), MkBits(false, ref.Cmax, ref.MaxQ), MkBits(true, ref.Cmax, ref.MinQ), MkBits(false, big.NewInt(1), ref.MinQ), MkBits(false, pow2(113), -20),
		ref.FromWords(0x5fffffffffffffff, ^uint64(0)), ref.FromWords(0x6000000000000000, 0), ref.FromWords(0x77ffffffffffffff, ^uint64(0)))
	bcalls := binaryTotalCalls()
	r.Bounds["binary_operands"] = len(ops)
	r.Bounds["binary_calls"] = len(bcalls)
	r.Par(len(ops), func(w *eng.W, i int) {
		x := D(ops[i])
		for _, yb := range ops {
			y := D(yb)
			for _, c := range bcalls {
				w.Set2(c.name, "", ops[i], yb)
				var o1, o2 string
				p, msg := guard(func() { o1 = c.f(x, y) })
				w.Eval()
				if p {
					w.R.Fail(eng.Case{Op: "total:" + c.name, Args: []string{ops[i].Hex(), yb.Hex()}, Got: "panic: " + msg, Want: "no panic"})
					continue
				}
				guard(func() { o2 = c.f(x, y) })
				if o1 != o2 {
					w.R.Fail(eng.Case{Op: "pure:" + c.name, Args: []string{ops[i].Hex(), yb.Hex()}, Got: o2, Want: o1})
				}
			}
		}
		w.Cell("total/binary", true)
	})
	r.Phase("totality: binary entry points", t0, nil)

	// strings and byte slices
	t0 = time.Now()
	alpha := []string{"0", "1", "9", ".", "e", "E", "+", "-", "_", "n", "N", "a", "i", "f", "\x00", " ", "\xff", "é", "٣", "x"}
	N := 3
	if r.Thorough() {
		N = 4
	}
	r.Bounds["string_alphabet"] = len(alpha)
	r.Bounds["string_max_len"] = N
	r.Par(len(alpha), func(w *eng.W, k int) {
		var rec func(cur string, depth int)
		rec = func(cur string, depth int) {
			w.SetS("total:Parse/UnmarshalText/UnmarshalJSON/Scan/MustParse", "", cur)
			bs := []byte(cur)
			snap := append([]byte(nil), bs...)
			var perr error
			p, msg := guard(func() {
				_, perr = dec.Parse(cur)
				var d dec.Decimal
				d.UnmarshalText(bs)
				d.UnmarshalJSON(bs)
				d.UnmarshalBinary(bs)
				d.Compose(0, false, bs, 3)
				fmt.Sscan(cur, &d)
				fmt.Sscanf(cur, "%g", &d)
			})
			w.EvalN(7)
			if p {
				w.R.Fail(eng.Case{Op: "total:text-input", Args: []string{fmt.Sprintf("%q", cur)}, Got: "panic: " + msg, Want: "no panic"})
			}
			if !bytes.Equal(bs, snap) {
				w.R.Fail(eng.Case{Op: "pure:text-input", Args: []string{fmt.Sprintf("%q", cur)}, Got: "input slice modified", Want: "untouched"})
			}
			mp, _ := guard(func() { dec.MustParse(cur) })
			if mp != (perr != nil) {
				w.R.Fail(eng.Case{Op: "total:MustParse", Args: []string{fmt.Sprintf("%q", cur)}, Got: fmt.Sprint("panicked=", mp), Want: fmt.Sprint("panics iff Parse fails (", perr, ")")})
			}
			if depth < N {
				for _, a := range alpha {
					rec(cur+a, depth+1)
				}
			}
		}
		rec(alpha[k], 1)
		w.Cell("total/strings", true)
	})
	r.Seq(func(w *eng.W) {
		for _, n := range []int{100000, 1000000} {
			for _, s := range []string{strings.Repeat("9", n), "0." + strings.Repeat("0", n) + "1", strings.Repeat("1", n) + "e-" + fmt.Sprint(n), "1e" + strings.Repeat("9", n), strings.Repeat("_", n), strings.Repeat("1_", n/2) + "1", strings.Repeat("-", n)} {
				w.SetS("total:long-literal", "", short(s))
				p, msg := guard(func() {
					dec.Parse(s)
					var d dec.Decimal
					d.UnmarshalText([]byte(s))
					d.UnmarshalJSON([]byte(s))
				})
				w.EvalN(3)
				if p {
					w.R.Fail(eng.Case{Op: "total:long-literal", Args: []string{short(s)}, Got: "panic: " + msg, Want: "no panic"})
				}
			}
		}
		for n := 0; n <= 64; n++ {
			for _, fill := range []byte{0, 0xff, 0x5a} {
				bs := bytes.Repeat([]byte{fill}, n)
				for _, e := range []int32{math.MinInt32, -6177, 0, 6112, math.MaxInt32} {
					for form := 0; form < 4; form++ {
						p, msg := guard(func() {
							var d dec.Decimal
							d.UnmarshalBinary(bs)
							d.Compose(byte(form), fill == 0xff, bs, e)
						})
						w.EvalN(2)
						if p {
							w.R.Fail(eng.Case{Op: "total:bytes", Args: []string{fmt.Sprintf("%x", bs), fmt.Sprint(e)}, Got: "panic: " + msg, Want: "no panic"})
						}
					}
				}
			}
		}
		// long coefficients (every size path of Compose): the caller's slice, including its spare capacity, stays untouched
		for _, K := range SmallShapes() {
			for _, z := range []int{0, 19, 38, 40, 57, 60, 76, 80, 95, 100, 120, 300} {
				c := new(big.Int).Mul(K, ref.Pow10(z))
				backing := append(append(make([]byte, 0, len(c.Bytes())+24), c.Bytes()...), bytes.Repeat([]byte{0xa5}, 16)...)
				sig := backing[:len(c.Bytes())]
				snap := append([]byte(nil), backing...)
				for _, e := range []int32{int32(-z), int32(ref.MaxQ - z), int32(ref.MinQ - z), 0} {
					var d dec.Decimal
					p, msg := guard(func() { d.Compose(0, z%2 == 1, sig, e) })
					w.Eval()
					if p || !bytes.Equal(backing, snap) {
						w.R.Fail(eng.Case{Op: "pure:Compose", Args: []string{fmt.Sprintf("%v*10^%d", K, z), fmt.Sprint(e)}, Got: fmt.Sprint("panic=", p, " ", msg, " slice-modified=", !bytes.Equal(backing, snap)), Want: "no panic, coefficient slice (and its spare capacity) untouched"})
						copy(backing, snap)
					}
				}
			}
		}
		big1 := bytes.Repeat([]byte{0xff}, 100000)
		if p, msg := guard(func() { var d dec.Decimal; d.Compose(0, false, big1, 0); d.UnmarshalBinary(big1) }); p {
			w.R.Fail(eng.Case{Op: "total:bytes", Args: []string{"100000 x ff"}, Got: "panic: " + msg, Want: "no panic"})
		}
		w.Cell("total/bytes-and-long-literals", true)
	})
	r.Phase("totality: strings, byte slices, long literals", t0, nil)

	// format specs, fmt.State / fmt.ScanState stubs, big arguments, constructors
	t0 = time.Now()
	specAlpha := []string{"+", "-", "#", " ", "0", "1", "9", ".", "e", "f", "g", "G", "v", "x", "%", "s", "*", "[", "é", "\x00"}
	sn := 3
	if r.Thorough() {
		sn = 4
	}
	vals := []dec.Decimal{dec.New(12345, -2), dec.New(-5, -1), dec.NaN(), dec.Inf(-1), dec.New(0, 0), D(MkBits(true, ref.Cmax, ref.MaxQ)), D(MkBits(false, big.NewInt(1), ref.MinQ))}
	r.Par(len(specAlpha), func(w *eng.W, k int) {
		var rec func(cur string, depth int)
		rec = func(cur string, depth int) {
			for _, d := range vals {
				w.SetS("total:format-spec", "", cur)
				var o string
				p, msg := guard(func() {
					o = fmt.Sprintf("%"+cur, d)
					o += string(d.Append(nil, cur))
				})
				w.EvalN(2)
				if p || strings.Contains(o, "PANIC=") {
					w.R.Fail(eng.Case{Op: "total:format-spec", Args: []string{fmt.Sprintf("%q", cur), bstr(d)}, Got: "panic: " + msg + trunc(o), Want: "no panic"})
				}
			}
			if depth < sn {
				for _, a := range specAlpha {
					rec(cur+a, depth+1)
				}
			}
		}
		rec(specAlpha[k], 1)
		w.Cell("total/format-specs", true)
	})
	r.Seq(func(w *eng.W) {
		for _, n := range []string{"0", "1", "34", "41", "1000", "99999", "100000", "100001", "999999", "1000000", "1000001", "99999999999999999999"} {
			for _, verb := range []string{"e", "f", "g", "v"} {
				for _, sp := range []string{n + verb, "." + n + verb, n + "." + n + verb, "-" + n + verb, "0" + n + verb} {
					if len(n) >= 6 && strings.Count(sp, n) > 1 {
						continue
					}
					for _, d := range vals[:3] {
						w.SetS("total:format-spec", "", sp)
						var o string
						p, msg := guard(func() { o = fmt.Sprintf("%"+sp, d); d.Append(nil, sp) })
						w.EvalN(2)
						if p || strings.Contains(o[:minInt(len(o), 200)], "PANIC=") {
							w.R.Fail(eng.Case{Op: "total:format-spec", Args: []string{sp, bstr(d)}, Got: "panic: " + msg, Want: "no panic"})
						}
					}
				}
			}
		}
		// environment answers: fmt.State / fmt.ScanState that fail at the k-th call
		for k := 0; k <= 6; k++ {
			for _, d := range vals {
				for _, verb := range []rune("vefgGx") {
					for _, fl := range []string{"", "+-# 0", "-", "0"} {
						for _, wp := range [][2]int{{-1, -1}, {0, 0}, {12, 3}, {100000, 100000}} {
							st := &errState{failAt: k, flags: fl, wid: wp[0], prec: wp[1]}
							p, msg := guard(func() { d.Format(st, verb) })
							w.Eval()
							if p {
								w.R.Fail(eng.Case{Op: "total:Format(State)", Args: []string{bstr(d), string(verb), fl, fmt.Sprint(wp, k)}, Got: "panic: " + msg, Want: "no panic"})
							}
						}
					}
				}
			}
			for _, in := range []string{"", " ", "12.5e3 x", "-inf", "+nan", "in", "na", "+", "i", "1e", "..", "9999999999999999999999999999999999999999e9999"} {
				for _, verb := range []rune("vefgEGxs") {
					sc := &errScan{r: strings.NewReader(in), failAt: k}
					var d dec.Decimal
					p, msg := guard(func() { d.Scan(sc, verb) })
					w.Eval()
					if p {
						w.R.Fail(eng.Case{Op: "total:Scan(ScanState)", Args: []string{in, string(verb), fmt.Sprint(k)}, Got: "panic: " + msg, Want: "no panic"})
					}
				}
			}
		}
		// constructors and big arguments: inputs must not be modified, results repeatable
		bi1, _ := new(big.Int).SetString(strings.Repeat("9", 20000), 10)
		for _, z := range []*big.Int{new(big.Int), big.NewInt(-1), bi1, new(big.Int).Neg(bi1), new(big.Int).Lsh(big.NewInt(1), 200000)} {
			snap := new(big.Int).Set(z)
			var a, b2 dec.Decimal
			p, msg := guard(func() { a = dec.FromInt(z); b2 = dec.FromInt(z) })
			w.EvalN(2)
			if p || z.Cmp(snap) != 0 || B(a) != B(b2) {
				w.R.Fail(eng.Case{Op: "total:FromInt", Args: []string{fmt.Sprint(z.BitLen(), " bits")}, Got: fmt.Sprint("panic=", p, msg, " modified=", z.Cmp(snap) != 0), Want: "no panic, argument untouched, repeatable"})
			}
			for _, den := range []*big.Int{big.NewInt(1), big.NewInt(3), bi1} {
				rr := new(big.Rat).SetFrac(z, den)
				rs := new(big.Rat).Set(rr)
				p, msg := guard(func() { a = dec.FromRat(rr); b2 = dec.FromRat(rr) })
				w.EvalN(2)
				if p || rr.Cmp(rs) != 0 || B(a) != B(b2) {
					w.R.Fail(eng.Case{Op: "total:FromRat", Args: []string{fmt.Sprint(z.BitLen(), "/", den.BitLen(), " bits")}, Got: fmt.Sprint("panic=", p, msg), Want: "no panic, argument untouched, repeatable"})
				}
			}
		}
		for _, f := range []*big.Float{new(big.Float), big.NewFloat(-0.0), new(big.Float).SetInf(true), new(big.Float).SetMantExp(big.NewFloat(1), 1<<30), new(big.Float).SetMantExp(big.NewFloat(-1), -(1 << 20)), new(big.Float).SetPrec(10000).SetInt(bi1)} {
			if f.IsInf() || f.MantExp(nil) < 1<<22 && f.MantExp(nil) > -(1<<22) {
				fs := new(big.Float).Copy(f)
				var a dec.Decimal
				p, msg := guard(func() { a = dec.FromFloat(f) })
				w.Eval()
				if p || f.Cmp(fs) != 0 {
					w.R.Fail(eng.Case{Op: "total:FromFloat", Args: []string{f.Text('g', 10)}, Got: fmt.Sprint("panic=", p, msg), Want: "no panic, argument untouched"})
				}
				_ = a
			}
		}
		for _, f := range []float64{0, math.Copysign(0, -1), math.NaN(), math.Inf(1), math.Inf(-1), math.MaxFloat64, math.SmallestNonzeroFloat64, -1.5} {
			if p, msg := guard(func() { dec.FromFloat64(f); dec.FromFloat32(float32(f)) }); p {
				w.R.Fail(eng.Case{Op: "total:FromFloat64", Args: []string{fmt.Sprint(f)}, Got: "panic: " + msg, Want: "no panic"})
			}
			w.EvalN(2)
		}
		for _, e := range intExtremes {
			for _, s := range []int64{0, 1, -1, math.MaxInt64, math.MinInt64} {
				if p, msg := guard(func() { dec.New(s, e) }); p {
					w.R.Fail(eng.Case{Op: "total:New", Args: []string{fmt.Sprint(s), fmt.Sprint(e)}, Got: "panic: " + msg, Want: "no panic"})
				}
				w.Eval()
			}
			if p, msg := guard(func() {
				dec.Inf(e)
				dec.FromInt64(int64(e))
				dec.FromInt32(int32(e))
				dec.FromUint64(uint64(e))
				dec.FromUint32(uint32(e))
			}); p {
				w.R.Fail(eng.Case{Op: "total:Inf/FromInt64", Args: []string{fmt.Sprint(e)}, Got: "panic: " + msg, Want: "no panic"})
			}
		}
		if p, msg := guard(func() {
			_ = dec.E().String() + dec.Pi().String() + dec.Phi().String() + dec.NaN().String()
			for m := 0; m < 256; m++ {
				_ = dec.RoundingMode(m).String()
			}
			for _, pl := range []dec.Payload{0, 1, 9, 255, 0x010203, 0xffffff, 0x1000000, math.MaxUint64} {
				_ = pl.String()
			}
		}); p {
			w.R.Fail(eng.Case{Op: "total:constants", Got: "panic: " + msg, Want: "no panic"})
		}
		// results retained across later calls (a returned string or slice must not alias a reused buffer)
		d1, d2 := dec.New(123456789, -3), dec.New(-987654321, 7)
		s1 := d1.String()
		t1, _ := d1.MarshalText()
		j1, _ := d1.MarshalJSON()
		a1 := dec.Append(nil, d1, 'g', -1)
		_, _, c1, _ := d1.Decompose(nil)
		keep := []string{s1, string(t1), string(j1), string(a1), fmt.Sprint(c1)}
		for i := 0; i < 50; i++ {
			_ = d2.String()
			d2.MarshalText()
			d2.MarshalJSON()
			dec.Append(nil, d2, 'g', -1)
			d2.Decompose(nil)
			_ = fmt.Sprint(d2)
		}
		if now := []string{s1, string(t1), string(j1), string(a1), fmt.Sprint(c1)}; strings.Join(now, "|") != strings.Join(keep, "|") {
			w.R.Fail(eng.Case{Op: "pure:retained-results", Got: strings.Join(now, "|"), Want: strings.Join(keep, "|") + " (results changed after unrelated calls)"})
		}
		w.EvalN(6)
		w.Cell("total/environment-stubs-and-constructors", true)
	})
	r.Phase("totality: format specs, fmt.State/ScanState fault injection, constructors, retained results", t0, nil)
}

// ---- schedules (instrumented overlay build) -------------------------------------------------------

type schedScenario struct {
	Name      string   `json:"name"`
	Threads   int      `json:"threads"`
	Schedules int      `json:"schedules"`
	MaxPoints int      `json:"max_points_per_execution"`
	Outcomes  int      `json:"distinct_outcomes"`
	BoundDone int      `json:"preemption_bound_completed"`
	Capped    bool     `json:"capped"`
	Sites     int      `json:"sites_touched"`
	Violation string   `json:"violation"`
	Schedule  []int    `json:"schedule"`
	Got       []string `json:"got"`
	Want      []string `json:"want"`
}

type schedOutput struct {
	Scenarios     []schedScenario `json:"scenarios"`
	TotalSched    int             `json:"total_schedules"`
	SnapshotCalls int             `json:"snapshot_checks"`
	SnapshotBad   []string        `json:"snapshot_violations"`
	LazyInit      []string        `json:"one_time_initialisations"`
	ReplayChecked int             `json:"replays_checked_deterministic"`
	Errors        []string        `json:"errors"`
	Wall          float64         `json:"wall_s"`
}

func goEnv() []string {
	env := os.Environ()
	flags := "GOFLAGS=-mod=mod"
	if mf := os.Getenv("VERIF_MODFILE"); mf != "" {
		flags += " -modfile=" + mf
	}
	env = append(env, flags, "GOPROXY=off", "GOSUMDB=off", "GOTOOLCHAIN=local")
	return env
}

func c20Schedules(r *eng.Run) {
	work := filepath.Join(r.Root, ".work", "c20-"+r.Tier)
	os.RemoveAll(work)
	os.MkdirAll(work, 0o755)
	mcDir := filepath.Join(r.Root, "mc")
	type variant struct {
		name    string
		allVars bool
		bound   int
		threads int
		max     int
	}
	variants := []variant{{"written-vars/2-threads", false, 2, 2, 4000}}
	if r.Thorough() {
		variants = append(variants, variant{"all-vars/2-threads", true, 2, 2, 6000}, variant{"written-vars/3-threads", false, 2, 3, 6000}, variant{"all-vars/3-threads", true, 1, 3, 3000})
	} else {
		variants = append(variants, variant{"all-vars/2-threads", true, 1, 2, 3000})
	}
	totalSched, totalPoints := 0, 0
	var summary []map[string]any
	for vi, v := range variants {
		t0 := time.Now()
		dir := filepath.Join(work, fmt.Sprintf("v%d", vi))
		info, err := instr.Generate(RepoDir(), dir, filepath.Join(mcDir, "verifsched", "sched.go"), v.allVars)
		if err != nil {
			r.SelfFail("instrumenter failed: %v", err)
			return
		}
		bin := filepath.Join(dir, "schedrun")
		cmd := exec.Command("go", "build", "-overlay", info.Overlay, "-o", bin, "./cmd/schedrun")
		cmd.Dir = mcDir
		cmd.Env = goEnv()
		if out, err := cmd.CombinedOutput(); err != nil {
			r.SelfFail("building the instrumented library failed: %v\n%s", err, trunc(string(out)))
			return
		}
		shards := 8
		outs := make([]schedOutput, shards)
		var wg sync.WaitGroup
		errs := make([]error, shards)
		for s := 0; s < shards; s++ {
			wg.Add(1)
			go func(s int) {
				defer wg.Done()
				of := filepath.Join(dir, fmt.Sprintf("out%d.json", s))
				c := exec.Command(bin)
				c.Env = append(os.Environ(), fmt.Sprintf("SCHED_BOUND=%d", v.bound), fmt.Sprintf("SCHED_THREADS=%d", v.threads), fmt.Sprintf("SCHED_MAX=%d", v.max), fmt.Sprintf("SCHED_SHARD=%d/%d", s, shards), "SCHED_OUT="+of, "GOMAXPROCS=2")
				if o, err := c.CombinedOutput(); err != nil {
					errs[s] = fmt.Errorf("%v: %s", err, trunc(string(o)))
					return
				}
				b, err := os.ReadFile(of)
				if err != nil {
					errs[s] = err
					return
				}
				errs[s] = json.Unmarshal(b, &outs[s])
			}(s)
		}
		wg.Wait()
		nsc, nsched, capped, maxPts := 0, 0, 0, 0
		minBound := v.bound
		for s := 0; s < shards; s++ {
			if errs[s] != nil {
				r.SelfFail("schedule exploration shard %d failed: %v", s, errs[s])
				continue
			}
			o := outs[s]
			for _, e := range o.Errors {
				r.SelfFail("scheduler: %s", e)
			}
			if s == 0 {
				r.Extra["one_time_initialisations_observed"] = len(o.LazyInit)
				for _, sb := range o.SnapshotBad {
					r.Fail(eng.Case{Op: "pure:package-state", Args: []string{sb}, Got: sb, Want: "no operation modifies package-level state or depends on call history"})
				}
			}
			for _, sc := range o.Scenarios {
				nsc++
				nsched += sc.Schedules
				totalPoints += sc.Schedules * sc.MaxPoints / 2
				if sc.MaxPoints > maxPts {
					maxPts = sc.MaxPoints
				}
				if sc.Capped {
					capped++
					r.Exhaustive = false
				}
				if sc.BoundDone < minBound {
					minBound = sc.BoundDone
				}
				if sc.Outcomes > 1 && sc.Violation == "" {
					r.SelfFail("scenario %s: %d distinct outcomes but no violation recorded", sc.Name, sc.Outcomes)
				}
				if sc.Violation != "" {
					sj, _ := json.Marshal(sc.Schedule)
					r.Fail(eng.Case{Op: "schedule", Args: []string{v.name, sc.Name, string(sj)}, Got: trunc(strings.Join(sc.Got, "; ")), Want: trunc(strings.Join(sc.Want, "; ")), Note: sc.Violation})
				}
			}
		}
		totalSched += nsched
		summary = append(summary, map[string]any{"variant": v.name, "scenarios": nsc, "schedules": nsched, "preemption_bound_requested": v.bound, "preemption_bound_completed_everywhere": minBound,
			"scenarios_capped": capped, "cap_per_scenario": v.max, "max_points_per_execution": maxPts, "instrumented_sites": len(info.Sites), "package_vars": len(info.PackageVars),
			"written_vars": info.WrittenVars, "tainted_funcs": info.TaintedFuncs, "sync_imports": info.SyncImports, "wall_s": time.Since(t0).Seconds()})
		if vi == 0 {
			r.Extra["package_level_vars"] = info.PackageVars
			r.Extra["may_write_sites"] = info.WriteSites
		}
		r.Seq(func(w *eng.W) {
			w.EvalN(int64(nsched))
			w.CellN("schedules/"+v.name, int64(nsched), true)
		})
	}
	r.Extra["schedule_exploration"] = summary
	r.States.Add(int64(totalSched))
	r.Transitions.Add(int64(totalPoints))
	os.RemoveAll(work)
}

func c20Race(r *eng.Run) {
	t0 := time.Now()
	work := filepath.Join(r.Root, ".work")
	bin := filepath.Join(work, "racerun")
	cmd := exec.Command("go", "build", "-race", "-o", bin, "./cmd/racerun")
	cmd.Dir = filepath.Join(r.Root, "mc")
	cmd.Env = goEnv()
	if out, err := cmd.CombinedOutput(); err != nil {
		r.SelfFail("building the race pass failed: %v\n%s", err, trunc(string(out)))
		return
	}
	iters := "150"
	if r.Thorough() {
		iters = "1500"
	}
	c := exec.Command(bin)
	c.Env = append(os.Environ(), "GORACE=halt_on_error=1", "RACE_ITERS="+iters)
	out, err := c.CombinedOutput()
	r.Extra["race_pass"] = map[string]any{"goroutines": 8, "iterations": iters, "output": trunc(lastLines(string(out), 3)), "wall_s": time.Since(t0).Seconds(), "role": "supplementary (sampling): discharges the assumption that scheduling points at package-variable accesses suffice"}
	if err != nil {
		what := "results differ from sequential"
		if strings.Contains(string(out), "DATA RACE") {
			what = "data race reported by the Go race detector"
		}
		r.Fail(eng.Case{Op: "race", Args: []string{"free-running goroutines on shared operands"}, Got: what + ": " + trunc(firstLines(string(out), 12)), Want: "no data race, same results as sequential"})
	}
	r.Seq(func(w *eng.W) { w.Eval(); w.Cell("race-pass", true) })
}

func lastLines(s string, n int) string {
	l := strings.Split(strings.TrimSpace(s), "\n")
	if len(l) > n {
		l = l[len(l)-n:]
	}
	return strings.Join(l, "\n")
}
func firstLines(s string, n int) string {
	l := strings.Split(s, "\n")
	if len(l) > n {
		l = l[:n]
	}
	return strings.Join(l, " / ")
}

func C20(r *eng.Run) {
	r.Rule = "totality: every exported entry point (enumerated from the sources; the check lists any it has no driver for) on all 2^17 top-bit patterns x 3 low-bit shapes as receiver, a special/extreme operand table squared for binary operations and every mode value incl. an invalid one, " +
		"int arguments at the extremes (MinInt..MaxInt, +-2^31, +-2^15, +-100001), every string up to length N over a 20-symbol alphabet incl. NUL/invalid UTF-8/non-ASCII and 1e5/1e6-byte literals, byte slices of length 0..64 and 1e5, precisions/widths up to 100001 and beyond, every format spec up to length N over a 20-symbol alphabet, " +
		"fmt.State/fmt.ScanState stubs failing at the k-th call (environment answers); panic <=> documented panic; purity: receivers/slices/big arguments unchanged, calls repeatable, retained results stable, package-level state (generated snapshot of all package variables) unchanged and results independent of call history. " +
		"schedules: the current sources are instrumented (go/ast + go/types) into a build overlay with a scheduling point before every statement touching a package-level variable (and at function entries/loops where a reference to a written variable escapes); sync is redirected to a yielding shim; " +
		"a cooperative scheduler then explores ALL interleavings of 2-3 threads x 2 operations (every unordered pair of a 19-entry operation menu on shared operands) up to the preemption bound, comparing every thread's results with the sequential results; states = complete executions, transitions = scheduling decisions. " +
		"A separate free-running -race pass over the same operation bodies is supplementary."
	r.Assumptions = []string{"binary codec is the identity on bits (checked at start; decided by C12)", "package-level state may settle once (a table built on first use): only changes after every operation has run once are violations; scheduling points at statement granularity on package-level variables; memory-model effects below that are only sampled by the -race pass",
		"DefaultRoundingMode is not written by the harness during concurrent runs (the property excludes that)", "Format/Append with precision MaxInt for verbs e/E/f is not exercised (it denotes an unbounded output)"}
	if !CodecSanity(r) {
		return
	}
	c20Totality(r)
	c20Ownership(r)
	c20StructuredPairs(r)
	t0 := time.Now()
	c20Schedules(r)
	r.Phase("schedule exploration", t0, nil)
	t0 = time.Now()
	c20Race(r)
	r.Phase("race pass", t0, nil)
	r.Traces.Add(1)
	r.Require("total/returns", "total/documented-panic", "total/binary", "total/strings", "total/format-specs", "total/environment-stubs-and-constructors", "schedules/written-vars/2-threads", "schedules/all-vars/2-threads", "race-pass")
}

func init() {
	Checks["C20"] = Check{C20, "model_checking"}
	Replayers["schedule"] = func(c eng.Case) (string, string, error) {
		if len(c.Args) != 3 {
			return "", "", fmt.Errorf("bad schedule case")
		}
		root := os.Getenv("VERIF_ROOT")
		if root == "" {
			root = "/verif"
		}
		dir := filepath.Join(root, ".work", "c20-replay")
		os.RemoveAll(dir)
		defer os.RemoveAll(dir)
		mcDir := filepath.Join(root, "mc")
		info, err := instr.Generate(RepoDir(), dir, filepath.Join(mcDir, "verifsched", "sched.go"), strings.HasPrefix(c.Args[0], "all-vars"))
		if err != nil {
			return "", "", err
		}
		bin := filepath.Join(dir, "schedrun")
		cmd := exec.Command("go", "build", "-overlay", info.Overlay, "-o", bin, "./cmd/schedrun")
		cmd.Dir = mcDir
		cmd.Env = goEnv()
		if out, err := cmd.CombinedOutput(); err != nil {
			return "", "", fmt.Errorf("%v: %s", err, out)
		}
		threads := "2"
		if strings.Contains(c.Args[0], "3-threads") {
			threads = "3"
		}
		r := exec.Command(bin)
		r.Env = append(os.Environ(), "SCHED_ONLY="+c.Args[1], "SCHED_REPLAY="+c.Args[2], "SCHED_THREADS="+threads)
		out, err := r.CombinedOutput()
		fmt.Print(string(out))
		if err != nil {
			return "differs from sequential", "same results as sequential execution", nil
		}
		return "ok", "ok", nil
	}
}
