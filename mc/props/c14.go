package props

import (
	"bytes"
	"fmt"
	"math"
	"math/big"
	"time"

	dec "github.com/woodsbury/decimal128"

	"verifmc/eng"
	"verifmc/ref"
)

func checkCompose(w *eng.W, form byte, neg bool, sig []byte, exp int32, cell string) {
	w.SetS("Compose", "", fmt.Sprintf("form=%d neg=%v sig=%x exp=%d", form, neg, sig, exp))
	snap := append([]byte(nil), sig...)
	d := dec.New(7, 3)
	err := d.Compose(form, neg, sig, exp)
	w.Eval()
	args := []string{itoa(int(form)), fmt.Sprint(neg), fmt.Sprintf("%x", snap), itoa(int(exp))}
	if !bytes.Equal(sig, snap) {
		w.R.Fail(eng.Case{Op: "Compose", Args: args, Got: "coefficient slice modified", Want: "input untouched"})
	}
	switch {
	case form == 1:
		if err != nil || !Same(B(d), ref.Val{Class: ref.Inf, Neg: neg}) {
			w.R.Fail(eng.Case{Op: "Compose", Args: args, Got: fmt.Sprint(V(d), " err=", err), Want: "Inf with the given sign"})
		}
		w.Cell("compose/inf", true)
		return
	case form == 2:
		if err != nil || V(d).Class != ref.NaN {
			w.R.Fail(eng.Case{Op: "Compose", Args: args, Got: fmt.Sprint(V(d), " err=", err), Want: "NaN"})
		}
		w.Cell("compose/nan", true)
		return
	case form > 2:
		if err == nil {
			w.R.Fail(eng.Case{Op: "Compose", Args: args, Got: "accepted " + V(d).String(), Want: "error: unknown form"})
		}
		w.Cell("compose/unknown-form", true)
		return
	}
	c := new(big.Int).SetBytes(sig)
	want, ok := ref.Fit(neg, c, int(exp))
	if ok {
		if err != nil {
			w.R.Fail(eng.Case{Op: "Compose", Args: args, Got: "error " + err.Error(), Want: "exactly " + want.String()})
		} else if !Same(B(d), want) {
			w.R.Fail(eng.Case{Op: "Compose", Args: args, Got: V(d).String(), Want: want.String()})
		}
		w.Cell("compose/representable/"+cell, true)
	} else {
		if err == nil {
			w.R.Fail(eng.Case{Op: "Compose", Args: args, Got: "accepted, rounded to " + V(d).String(), Want: "error (not representable, no rounding)"})
		}
		w.Cell("compose/unrepresentable/"+cell, true)
	}
}

func init() {
	Replayers["Compose"] = func(c eng.Case) (string, string, error) {
		var form, exp int
		var neg bool
		var sig []byte
		fmt.Sscan(c.Args[0], &form)
		fmt.Sscan(c.Args[1], &neg)
		fmt.Sscanf(c.Args[2], "%x", &sig)
		fmt.Sscan(c.Args[3], &exp)
		var d dec.Decimal
		err := d.Compose(byte(form), neg, sig, int32(exp))
		got := fmt.Sprint(V(d), " err=", err)
		want, ok := ref.Fit(neg, new(big.Int).SetBytes(sig), exp)
		if form != 0 {
			return got, c.Want, nil
		}
		if ok && err == nil && ref.SameValue(V(d), want) {
			return "ok", "ok", nil
		}
		if !ok && err != nil {
			return "ok", "ok", nil
		}
		return got, fmt.Sprint(want, " representable=", ok), nil
	}
	Checks["C14"] = Check{C14, "exploration"}
}

func C14(r *eng.Run) {
	r.Rule = "Decompose->Compose round trip over coefficient shapes x every exponent x signs x specials with caller buffers of capacity {nil,0,15,16,64}; " +
		"Compose of arbitrary parts: form 0..255, coefficient bytes of K*10^z (z=0..120: <=16-byte, <=32-byte and big paths) with 0..3 leading zero bytes, nil and empty, " +
		"exponents in windows around -6176-z, 6111-z, 0 and the int32 extremes; oracle: representable in the format (exact big-integer test) <=> success with an exactly equal Decimal, otherwise error and no rounding. " +
		"Non-trivial = everything except short coefficients at in-range exponents."
	r.Assumptions = []string{"binary codec is the identity on bits (checked at start; decided by C12)"}
	if !CodecSanity(r) {
		return
	}
	shapes := Shapes(true)
	t0 := time.Now()
	var exps []int
	for q := ref.MinQ; q <= ref.MaxQ; q++ {
		if r.Thorough() || q < ref.MinQ+50 || q > ref.MaxQ-50 || (q > -60 && q < 60) || q%53 == 0 {
			exps = append(exps, q)
		}
	}
	r.Bounds["shapes"] = len(shapes)
	r.Bounds["roundtrip_exponents"] = len(exps)
	r.Par(len(shapes), func(w *eng.W, i int) {
		bufs := [][]byte{nil, make([]byte, 0), make([]byte, 3, 15), make([]byte, 0, 16), bytes.Repeat([]byte{0xa5}, 64)}
		var n int64
		for _, q := range exps {
			for s := 0; s < 2; s++ {
				b := MkBits(s == 1, shapes[i], q)
				d := D(b)
				for bi, buf := range bufs {
					w.Set1I("Decompose", "", b, int64(bi))
					var tail []byte
					if cap(buf) > 16 {
						tail = append([]byte(nil), buf[16:cap(buf)]...)
					}
					form, neg, coef, exp := d.Decompose(buf)
					n++
					v := ref.Decode(b)
					if form != 0 || neg != v.Neg || !sameValueParts(coef, int(exp), v) {
						w.R.Fail(eng.Case{Op: "Decompose", Args: []string{b.Hex(), itoa(bi)}, Got: fmt.Sprintf("form=%d neg=%v coef=%x exp=%d", form, neg, coef, exp), Want: v.String()})
						continue
					}
					if tail != nil && !bytes.Equal(tail, buf[16:cap(buf)]) {
						w.R.Fail(eng.Case{Op: "Decompose", Args: []string{b.Hex(), itoa(bi)}, Got: "bytes beyond the coefficient were modified", Want: "untouched"})
					}
					var d2 dec.Decimal
					if err := d2.Compose(form, neg, coef, exp); err != nil || !Same(B(d2), v) {
						w.R.Fail(eng.Case{Op: "Compose(Decompose)", Args: []string{b.Hex(), itoa(bi)}, Got: fmt.Sprint(V(d2), " err=", err), Want: v.String()})
					}
					// the decomposed result must survive reuse of the buffer by a second call on another value
					if bi == 4 {
						saved := append([]byte(nil), coef...)
						D(MkBits(false, big.NewInt(99), 0)).Decompose(nil)
						if !bytes.Equal(saved, coef) {
							w.R.Fail(eng.Case{Op: "Decompose", Args: []string{b.Hex(), itoa(bi)}, Got: "result changed by an unrelated call", Want: "stable"})
						}
					}
				}
			}
		}
		w.EvalN(n)
		w.CellN("roundtrip/finite", n, true)
	})
	// zeros, specials
	r.Seq(func(w *eng.W) {
		for _, b := range specialOperands() {
			d := D(b)
			v := ref.Decode(b)
			form, neg, coef, exp := d.Decompose(nil)
			var d2 dec.Decimal
			err := d2.Compose(form, neg, coef, exp)
			w.Eval()
			v2 := V(d2)
			ok := err == nil && v2.Class == v.Class && (v.Class == ref.NaN || ref.SameValue(v2, v))
			wantForm := byte(0)
			if v.Class == ref.Inf {
				wantForm = 1
			} else if v.Class == ref.NaN {
				wantForm = 2
			}
			if !ok || form != wantForm {
				w.R.Fail(eng.Case{Op: "Compose(Decompose)", Args: []string{b.Hex(), "0"}, Got: fmt.Sprint("form=", form, " ", v2, " err=", err), Want: fmt.Sprint("form=", wantForm, " ", v)})
			}
			w.Cell("roundtrip/special-or-zero", true)
		}
	})
	r.Phase("A1 round trip", t0, nil)

	// R: values reached by operation sequences (whatever encoding the library returned)
	reachedPhase(r, "R values reached by operation sequences", reachedAll(r), func(w *eng.W, b ref.Bits, v ref.Val) {
		d := D(b)
		for bi, buf := range [][]byte{nil, make([]byte, 0, 16), bytes.Repeat([]byte{0xa5}, 40)} {
			w.Set1I("Decompose", "", b, int64(bi))
			form, neg, coef, exp := d.Decompose(buf)
			w.Eval()
			if form != 0 || neg != v.Neg || !sameValueParts(coef, int(exp), v) {
				w.R.Fail(eng.Case{Op: "Decompose", Args: []string{b.Hex(), itoa(bi)}, Got: fmt.Sprintf("form=%d neg=%v coef=%x exp=%d", form, neg, coef, exp), Want: v.String()})
				continue
			}
			var d2 dec.Decimal
			if err := d2.Compose(form, neg, coef, exp); err != nil || !Same(B(d2), v) {
				w.R.Fail(eng.Case{Op: "Compose(Decompose)", Args: []string{b.Hex(), itoa(bi)}, Got: fmt.Sprint(V(d2), " err=", err), Want: v.String()})
			}
		}
	})

	t0 = time.Now()
	maxz := 120
	r.Bounds["max_trailing_zeros"] = "every z to 120, plus {150,200,240,241,300,500,1000,2407,2500}"
	r.Par(len(shapes), func(w *eng.W, i int) {
		K := shapes[i]
		zs := []int{}
		for z := 0; z <= maxz; z++ {
			if r.Thorough() || z <= 45 || z%5 == 0 {
				zs = append(zs, z)
			}
		}
		// coefficients of several hundred to a thousand bytes (mostly trailing zeros), for a subset of shapes
		if i%8 == 0 || r.Thorough() {
			zs = append(zs, 150, 200, 240, 241, 300, 500, 1000, 2407, 2500)
		}
		for _, z := range zs {
			c := new(big.Int).Mul(K, ref.Pow10(z))
			cb := c.Bytes()
			cell := "big"
			if len(cb) <= 16 {
				cell = "le16"
			} else if len(cb) <= 32 {
				cell = "le32"
			}
			var es []int64
			for _, base := range []int{ref.MinQ - z, ref.MaxQ - z, 0, -z} {
				for d := -3; d <= 3; d++ {
					es = append(es, int64(base+d))
				}
			}
			for _, d := range []int{-36, -35, -34, 34, 35, 36, 37, 38} {
				es = append(es, int64(ref.MinQ-z+d), int64(ref.MaxQ-z+d))
			}
			es = append(es, math.MinInt32, math.MinInt32+1, math.MaxInt32-1, math.MaxInt32, -40000, 40000, 32767, 32768, -32768, -32769, 65536, -65536, 65536+100)
			for _, e := range es {
				if e < math.MinInt32 || e > math.MaxInt32 {
					continue
				}
				for s := 0; s < 2; s++ {
					lz := (z + int(e&3)) % 4
					sig := append(make([]byte, lz), cb...)
					checkCompose(w, 0, s == 1, sig, int32(e), cell)
				}
			}
			// coefficient not divisible: K*10^z + 1 (unrepresentable when too long)
			c1 := new(big.Int).Add(c, big.NewInt(1))
			checkCompose(w, 0, false, c1.Bytes(), int32(-z), cell+"+1")
			checkCompose(w, 0, true, c1.Bytes(), int32(ref.MinQ-1), cell+"+1")
		}
	})
	// zero-padded coefficients: a short value in a long slice (the size paths must key on the stripped length)
	r.Par(len(shapes), func(w *eng.W, i int) {
		if i%3 != 0 && !r.Thorough() {
			return
		}
		cb := shapes[i].Bytes()
		for _, total := range []int{16, 17, 24, 31, 32, 33, 34, 48, 64, 65, 100, 300} {
			if total <= len(cb) {
				continue
			}
			sig := append(make([]byte, total-len(cb)), cb...)
			var es []int32
			for d := -2; d <= 37; d++ {
				es = append(es, int32(ref.MaxQ+d), int32(ref.MinQ-d))
			}
			es = append(es, 0, -1, 1, 3000, -3000)
			for _, e := range es {
				checkCompose(w, 0, i%2 == 1, sig, e, "zero-padded")
			}
		}
	})
	r.Seq(func(w *eng.W) {
		for form := 0; form < 256; form++ {
			for _, sig := range [][]byte{nil, {}, {0}, {0, 0, 0}, {1}, {0, 5}} {
				for _, e := range []int32{0, 1, -6176, 6111, 6112, -6177, math.MaxInt32, math.MinInt32} {
					checkCompose(w, byte(form), form%2 == 1, sig, e, "small")
					checkCompose(w, byte(form), form%2 == 0, sig, e, "small")
				}
			}
		}
	})
	r.Phase("A2 arbitrary parts", t0, nil)
	r.Require("compose/representable/le16", "compose/representable/le32", "compose/representable/big", "compose/unrepresentable/le16", "compose/unrepresentable/big", "compose/unknown-form", "compose/inf", "compose/nan", "compose/representable/zero-padded", "compose/unrepresentable/zero-padded")
}

func sameValueParts(coef []byte, exp int, v ref.Val) bool {
	c := new(big.Int).SetBytes(coef)
	return ref.SameValue(ref.Val{Class: ref.Fin, Neg: v.Neg, C: c, Q: exp}, v)
}
