package props

import (
	"encoding/json"
	"errors"
	"fmt"
	"math/big"
	"regexp"
	"strings"
	"time"

	dec "github.com/woodsbury/decimal128"

	"verifmc/eng"
	"verifmc/ref"
)

var jsonNumRE = regexp.MustCompile(`^-?(0|[1-9][0-9]*)(\.[0-9]+)?([eE][+-]?[0-9]+)?$`)

// isJSONNumber is a hand-written RFC 8259 number recogniser (cross-checked against the regexp and json.Valid).
func isJSONNumber(s string) bool {
	i := 0
	if i < len(s) && s[i] == '-' {
		i++
	}
	if i >= len(s) {
		return false
	}
	if s[i] == '0' {
		i++
	} else if s[i] >= '1' && s[i] <= '9' {
		for i < len(s) && s[i] >= '0' && s[i] <= '9' {
			i++
		}
	} else {
		return false
	}
	if i < len(s) && s[i] == '.' {
		i++
		j := i
		for i < len(s) && s[i] >= '0' && s[i] <= '9' {
			i++
		}
		if i == j {
			return false
		}
	}
	if i < len(s) && (s[i] == 'e' || s[i] == 'E') {
		i++
		if i < len(s) && (s[i] == '+' || s[i] == '-') {
			i++
		}
		j := i
		for i < len(s) && s[i] >= '0' && s[i] <= '9' {
			i++
		}
		if i == j {
			return false
		}
	}
	return i == len(s)
}

func checkMarshalJSON(w *eng.W, b ref.Bits, v ref.Val, deep bool) {
	d := D(b)
	w.Set1("MarshalJSON", "", b)
	out, err := d.MarshalJSON()
	w.Eval()
	fail := func(op, got, want string) {
		w.R.Fail(eng.Case{Op: op, Args: []string{b.Hex()}, Got: got, Want: want, Note: v.String()})
	}
	if v.Class != ref.Fin {
		var uv *json.UnsupportedValueError
		if err == nil || !errors.As(err, &uv) {
			fail("MarshalJSON", fmt.Sprint(string(out), " err=", err), "*json.UnsupportedValueError")
		}
		if _, err := json.Marshal(struct{ X dec.Decimal }{d}); err == nil {
			fail("json.Marshal", "no error", "error for NaN/Inf")
		}
		w.Cell("marshal/special", true)
		return
	}
	s := string(out)
	if err != nil {
		fail("MarshalJSON", "error "+err.Error(), "a JSON number")
		return
	}
	if !isJSONNumber(s) || !jsonNumRE.MatchString(s) || !json.Valid(out) {
		fail("MarshalJSON", s, "a syntactically valid RFC 8259 number")
		return
	}
	l, ok := ref.ParseLit(s)
	if !ok || l.Class != ref.Fin || l.Neg != v.Neg || !ref.SameValue(ref.Val{Class: ref.Fin, Neg: l.Neg, C: l.C, Q: l.Q}, normQ(v)) {
		fail("MarshalJSON", s, "denotes exactly "+v.String())
		return
	}
	// no superfluous digits
	dg := ref.DigitsOf(v)
	mant := strings.TrimPrefix(s, "-")
	expPart := ""
	if i := strings.IndexAny(mant, "eE"); i >= 0 {
		mant, expPart = mant[:i], mant[i+1:]
	}
	sup := ""
	if i := strings.IndexByte(mant, '.'); i >= 0 && strings.HasSuffix(mant, "0") {
		sup = "trailing zero after the decimal point"
	}
	if expPart != "" {
		if strings.ReplaceAll(mant, ".", "") != dg.D && !(dg.D == "" && mant == "0") {
			sup = "mantissa digits differ from the significant digits " + dg.D
		}
		e := strings.TrimLeft(expPart, "+-")
		if len(e) > 1 && e[0] == '0' {
			sup = "leading zero in the exponent"
		}
	}
	if sup != "" {
		fail("MarshalJSON", s, "no superfluous digits ("+sup+")")
	}
	cell := "marshal/positional"
	if expPart != "" {
		cell = "marshal/exponent-form"
	}
	w.Cell(cell, true)
	// decode directly
	u := dec.New(7, 3)
	if err := u.UnmarshalJSON(out); err != nil || !Same(B(u), v) {
		fail("UnmarshalJSON(MarshalJSON)", fmt.Sprint(V(u), " err=", err, " text=", s), v.String())
	}
	w.Eval()
	if deep {
		type T struct {
			A dec.Decimal
			P *dec.Decimal
			S []dec.Decimal
			M map[string]dec.Decimal
		}
		in := T{A: d, P: &d, S: []dec.Decimal{d, d}, M: map[string]dec.Decimal{"k": d}}
		js, err := json.Marshal(in)
		if err != nil {
			fail("json.Marshal", "error "+err.Error(), "success")
			return
		}
		if want := fmt.Sprintf(`{"A":%s,"P":%s,"S":[%s,%s],"M":{"k":%s}}`, s, s, s, s, s); string(js) != want {
			fail("json.Marshal", string(js), want)
		}
		var o T
		if err := json.Unmarshal(js, &o); err != nil {
			fail("json.Unmarshal", "error "+err.Error(), "success")
			return
		}
		w.EvalN(2)
		if !Same(B(o.A), v) || o.P == nil || !Same(B(*o.P), v) || len(o.S) != 2 || !Same(B(o.S[1]), v) || !Same(B(o.M["k"]), v) {
			fail("json.Unmarshal", fmt.Sprint(V(o.A), " ", o.S, " ", o.M), v.String()+" in struct, pointer, slice and map")
		}
	}
}

func normQ(v ref.Val) ref.Val { return v }

// checkUnmarshalJSON judges one input to UnmarshalJSON.
func checkUnmarshalJSON(w *eng.W, s string) {
	w.SetS("UnmarshalJSON", "", short(s))
	pre := dec.New(7, 3)
	u := pre
	var err error
	func() {
		defer func() {
			if e := recover(); e != nil {
				err = fmt.Errorf("panic: %v", e)
				w.R.Fail(eng.Case{Op: "UnmarshalJSON", Args: []string{s}, Got: fmt.Sprint("panic: ", e), Want: "no panic"})
			}
		}()
		err = u.UnmarshalJSON([]byte(s))
	}()
	w.Eval()
	switch {
	case s == "null":
		w.Cell("unmarshal/null", true)
		if err != nil || B(u) != B(pre) {
			w.R.Fail(eng.Case{Op: "UnmarshalJSON", Args: []string{s}, Got: fmt.Sprint(V(u), " err=", err), Want: "receiver untouched, no error"})
		}
	case isJSONNumber(s):
		p, perr := dec.Parse(s)
		w.Cell("unmarshal/json-number", true)
		if perr != nil {
			// out of range: both must report an error
			if err == nil {
				w.R.Fail(eng.Case{Op: "UnmarshalJSON", Args: []string{s}, Got: V(u).String(), Want: "an error, as Parse reports: " + perr.Error()})
			}
			return
		}
		if err != nil || !ref.SameValue(V(u), V(p)) {
			w.R.Fail(eng.Case{Op: "UnmarshalJSON", Args: []string{s}, Got: fmt.Sprint(V(u), " err=", err), Want: "what Parse produces: " + V(p).String()})
		} else if l, ok := ref.ParseLit(s); ok && l.Class == ref.Fin {
			// "the same Decimal Parse would produce" is also read as what Parse is specified to produce (C05): the
			// correctly rounded value of the numeral, so that a defect shared by both entry points is not invisible here
			if want, rng := litWant(l, 0); !rng && !ref.SameValue(V(u), want) {
				w.R.Fail(eng.Case{Op: "UnmarshalJSON", Args: []string{s}, Got: V(u).String(), Want: "the correctly rounded value of the numeral: " + want.String()})
			}
		}
	default:
		// lenient acceptance: a plain numeral Parse accepts without underscores / special names (e.g. +1, .5, 1., 01) and the empty input are not judged
		l, ok := ref.ParseLit(s)
		if s == "" || (ok && l.Class == ref.Fin && !strings.Contains(s, "_")) {
			w.Cell("unmarshal/lenient-numeral-not-judged", false)
			if err == nil && s != "" {
				if p, perr := dec.Parse(s); perr == nil && !ref.SameValue(V(u), V(p)) {
					w.R.Fail(eng.Case{Op: "UnmarshalJSON", Args: []string{s}, Got: V(u).String(), Want: "if accepted, the value Parse produces: " + V(p).String()})
				}
			}
			return
		}
		w.Cell("unmarshal/non-number", true)
		if err == nil {
			w.R.Fail(eng.Case{Op: "UnmarshalJSON", Args: []string{s}, Got: "accepted as " + V(u).String(), Want: "an error (not a JSON number)"})
		}
	}
}

func init() {
	Replayers["UnmarshalJSON"] = func(c eng.Case) (string, string, error) {
		var u dec.Decimal
		err := u.UnmarshalJSON([]byte(c.Args[0]))
		return fmt.Sprint(V(u), " err=", err), c.Want, nil
	}
	Replayers["MarshalJSON"] = func(c eng.Case) (string, string, error) {
		b, err := ref.ParseHex(c.Args[0])
		if err != nil {
			return "", "", err
		}
		out, e := D(b).MarshalJSON()
		return fmt.Sprint(string(out), " err=", e), c.Want, nil
	}
	Checks["C13"] = Check{C13, "model_checking"}
}

func C13(r *eng.Run) {
	r.Rule = "MarshalJSON over coefficient shapes with trailing-zero cohorts x every exponent x signs: output must be in the RFC 8259 number grammar (hand-written recogniser, regexp and json.Valid must all agree), denote d exactly with its sign, carry no superfluous digits, and decode back (directly and through encoding/json in struct, pointer, slice and map fields) to the same value and sign; NaN/Inf -> *json.UnsupportedValueError. " +
		"UnmarshalJSON conformance with the reference grammar: every byte string up to length N over the alphabet {0,1,9,.,e,E,+,-,_,n,u,l,\",[,t} (accept/reject vs the grammar, accepted values equal Parse), the structured numerals of C05 restricted to JSON syntax, null leaves the receiver untouched, JSON non-numbers through encoding/json give errors. " +
		"states = strings judged against the grammar automaton, transitions = calls; non-trivial = everything but short positive integers."
	r.Assumptions = []string{"binary codec is the identity on bits (checked at start; decided by C12)", "inputs that are plain numerals but not JSON numbers (+1, .5, 1., 01, empty) are not judged: the property only demands errors for non-numbers",
		"accepted JSON numbers are compared with Parse of the same text and, in range, with the correctly rounded value of the numeral (what Parse is specified to produce, C05), under the default rounding mode"}
	if !CodecSanity(r) {
		return
	}
	shapes := Shapes(true)
	var coefs []*big.Int
	for _, c := range shapes {
		for _, z := range []int{0, 1, 2, 5, 18, 19, 20} {
			cc := new(big.Int).Mul(c, ref.Pow10(z))
			if cc.Cmp(ref.Cmax) <= 0 {
				coefs = append(coefs, cc)
			}
		}
	}
	coefs = dedupe(coefs)
	r.Bounds["coefficients"] = len(coefs)
	t0 := time.Now()
	r.Par(len(coefs), func(w *eng.W, i int) {
		step := 1
		if !r.Thorough() && i%8 != 0 {
			step = 13
		}
		for q := ref.MinQ; q <= ref.MaxQ; q++ {
			if q%step != 0 && !(q > -60 && q < 60) && q > ref.MinQ+5 && q < ref.MaxQ-5 {
				continue
			}
			for s := 0; s < 2; s++ {
				b := MkBits(s == 1, coefs[i], q)
				checkMarshalJSON(w, b, ref.Val{Class: ref.Fin, Neg: s == 1, C: coefs[i], Q: q}, q%97 == 0 || (q > -30 && q < 30))
			}
		}
	})
	r.Par(2, func(w *eng.W, s int) {
		for q := ref.MinQ; q <= ref.MaxQ; q++ {
			b := MkBits(s == 1, new(big.Int), q)
			checkMarshalJSON(w, b, ref.Decode(b), q%500 == 0)
		}
		w.CellN("marshal/zero-every-exponent", int64(ref.MaxQ-ref.MinQ+1), true)
	})
	r.Seq(func(w *eng.W) {
		for _, b := range specialOperands() {
			if v := ref.Decode(b); v.Class != ref.Fin {
				checkMarshalJSON(w, b, v, false)
			}
		}
	})
	r.Phase("MarshalJSON and round trips", t0, nil)

	// R: values reached by operation sequences
	reachedPhase(r, "R values reached by operation sequences", reachedAll(r), func(w *eng.W, b ref.Bits, v ref.Val) {
		checkMarshalJSON(w, b, v, b[15]%16 == 0)
	})

	// all strings up to N
	t0 = time.Now()
	alpha := []byte("019.eE+-_nul\"[t")
	N := 5
	if r.Thorough() {
		N = 6
	}
	r.Bounds["alphabet"] = string(alpha)
	r.Bounds["max_string_length"] = N
	r.Par(len(alpha), func(w *eng.W, k int) {
		var rec func(cur []byte)
		rec = func(cur []byte) {
			checkUnmarshalJSON(w, string(cur))
			if len(cur) == N {
				return
			}
			for _, c := range alpha {
				rec(append(cur, c))
			}
		}
		rec([]byte{alpha[k]})
	})
	r.Seq(func(w *eng.W) { checkUnmarshalJSON(w, "") })
	r.States.Add(r.Evals())
	r.Phase("all strings", t0, nil)

	// structured JSON numbers
	t0 = time.Now()
	kinds := []string{"P", "N", "P1", "H", "H-", "G"}
	type job struct {
		kind string
		L    int
	}
	var jobs []job
	for L := 1; L <= 45; L++ {
		for _, k := range kinds {
			jobs = append(jobs, job{k, L})
		}
	}
	for _, L := range []int{100, 1000, 32768, 70000} {
		jobs = append(jobs, job{"G", L}, job{"N", L})
	}
	// ties and every sticky-tail pattern after 34/35-digit prefixes (the digits the rounding step drops), as in C05
	for _, K := range []string{gen1[:34], "2000000000000000000000000000000000", "12980742146337069071326240823050238", "9999999999999999999999999999999998"} {
		for _, tl := range stickyTails(5) {
			ts := tl.String()
			for pad := len(ts); pad <= 5; pad++ {
				if pad > len(ts) && pad != 5 {
					continue
				}
				tt := strings.Repeat("0", pad-len(ts)) + ts
				jobs = append(jobs, job{"T:" + K + ":" + tt, len(K) + len(tt)})
			}
		}
	}
	r.Par(len(jobs), func(w *eng.W, k int) {
		j := jobs[k]
		dots := []int{-1, 1, j.L / 2, j.L - 1}
		for _, dot := range dots {
			if dot == 0 || dot >= j.L {
				continue
			}
			for _, ex := range []string{"", "e0", "E5", "e-7", "e+6100", "e-6180", "e6144", "e6145", "e-6176", "e-6215", "e99999", "e-99999", "e0_0", "e1_0"} {
				for _, sg := range []string{"", "-"} {
					s := genLit(fmt.Sprintf("%s|0|%s|%d|%d|%s", sg, j.kind, j.L, dot, ex))
					checkUnmarshalJSON(w, s)
					if j.L < 60 && (ex == "" || ex == "e-7") {
						// a separator at any position turns a JSON number into a non-number
						for i := 0; i <= len(s); i++ {
							checkUnmarshalJSON(w, s[:i]+"_"+s[i:])
						}
					}
				}
			}
		}
	})
	r.Phase("structured numbers", t0, nil)

	// non-numbers through encoding/json
	t0 = time.Now()
	r.Seq(func(w *eng.W) {
		for _, doc := range []string{`"1"`, `"abc"`, `true`, `false`, `[1]`, `[]`, `{}`, `{"a":1}`, `""`, `"NaN"`, `"Inf"`} {
			var u dec.Decimal
			err := json.Unmarshal([]byte(doc), &u)
			w.Eval()
			w.Cell("unmarshal/json-non-number-value", true)
			if err == nil {
				w.R.Fail(eng.Case{Op: "json.Unmarshal", Args: []string{doc}, Got: "accepted as " + V(u).String(), Want: "an error"})
			}
			var st struct{ X dec.Decimal }
			if err := json.Unmarshal([]byte(`{"X":`+doc+`}`), &st); err == nil {
				w.R.Fail(eng.Case{Op: "json.Unmarshal", Args: []string{`{"X":` + doc + `}`}, Got: "accepted as " + V(st.X).String(), Want: "an error"})
			}
		}
		// null inside documents leaves fields untouched
		st := struct {
			X dec.Decimal
			P *dec.Decimal
		}{X: dec.New(42, 0)}
		if err := json.Unmarshal([]byte(`{"X":null,"P":null}`), &st); err != nil || !st.X.Equal(dec.New(42, 0)) {
			w.R.Fail(eng.Case{Op: "json.Unmarshal", Args: []string{`{"X":null}`}, Got: fmt.Sprint(V(st.X), " err=", err), Want: "X untouched"})
		}
		w.Eval()
	})
	r.Transitions.Add(r.Evals())
	r.Traces.Add(r.Evals())
	r.Phase("documents", t0, nil)
	r.Require("marshal/positional", "marshal/exponent-form", "marshal/special", "marshal/zero-every-exponent", "unmarshal/null", "unmarshal/json-number", "unmarshal/non-number", "unmarshal/json-non-number-value")
}
