package props

import (
	"fmt"
	"math/big"
	"strings"
	"time"

	"verifmc/eng"
	"verifmc/ref"
)

// quoRemWant computes the specified (quotient, remainder) for arbitrary operands.
// qzeroSignFree: the sign of a zero quotient is not pinned by the property for finite/finite.
func quoRemWant(xv, yv ref.Val, m int) (q, rem ref.Val, qzeroSignFree bool, cell string) {
	nan := ref.Val{Class: ref.NaN, C: new(big.Int)}
	switch {
	case xv.Class == ref.NaN || yv.Class == ref.NaN:
		return nan, nan, false, "nan-operand"
	case xv.Class == ref.Inf && yv.Class == ref.Inf:
		return nan, nan, false, "inf/inf"
	case xv.Class == ref.Inf:
		return ref.Val{Class: ref.Inf, Neg: xv.Neg != yv.Neg}, nan, false, "inf/x"
	case yv.Class == ref.Inf:
		return ref.Zero(xv.Neg != yv.Neg), xv, false, "x/inf"
	case yv.C.Sign() == 0 && xv.C.Sign() == 0:
		return nan, nan, false, "0/0"
	case yv.C.Sign() == 0:
		return ref.Val{Class: ref.Inf, Neg: xv.Neg != yv.Neg}, nan, false, "x/0"
	}
	qv, rc, rq, n := ref.QuoRem(xv, yv, Modes[m])
	rv, ok := ref.Fit(xv.Neg, rc, rq)
	if !ok {
		panic("oracle: remainder not representable")
	}
	cell = "int-fits"
	switch {
	case xv.C.Sign() == 0:
		cell = "x=0"
	case n.Sign() == 0:
		cell = "|x|<|y|"
	case qv.Class == ref.Inf:
		cell = "q-overflow"
	default:
		nd := ref.NumDigits(n)
		if _, fits := ref.Fit(false, n, 0); !fits {
			cell = "q-rounded"
		} else if nd > 35 {
			cell = "int-fits-long"
		}
		if rc.Sign() == 0 {
			cell += "/r=0"
		}
	}
	return qv, rv, n.Sign() == 0, cell
}

// checkQuoRemModes checks all six modes when the quotient has to be rounded, and two (nearest-even and
// toward +Inf) when the integer quotient is exact, where the mode cannot matter.
func checkQuoRemModes(w *eng.W, xb, yb ref.Bits) {
	cell := checkQuoRem(w, xb, yb, 0)
	if strings.HasPrefix(cell, "q-rounded") || strings.HasPrefix(cell, "q-overflow") {
		for m := 1; m < 6; m++ {
			checkQuoRem(w, xb, yb, m)
		}
		return
	}
	checkQuoRem(w, xb, yb, 5)
}

func checkQuoRem(w *eng.W, xb, yb ref.Bits, m int) string {
	xv, yv := ref.Decode(xb), ref.Decode(yb)
	wq, wr, zfree, cell := quoRemWant(xv, yv, m)
	w.Set2("QuoRemWithMode", ref.ModeNames[m], xb, yb)
	gq, gr := D(xb).QuoRemWithMode(D(yb), LibModes[m])
	w.Eval()
	if w.Cell("QuoRem/"+ref.ModeNames[m]+"/"+cell, cell != "int-fits" && cell != "x=0") {
		w.Sample("QuoRem/"+ref.ModeNames[m]+"/"+cell, fmt.Sprintf("QuoRem(%s, %s) = (%s, %s)", xv, yv, V(gq), V(gr)))
	}
	gqv, grv := V(gq), V(gr)
	okq := ref.SameValue(gqv, wq)
	if !okq && zfree && gqv.IsZero() {
		okq = true
	}
	if !okq || !ref.SameValue(grv, wr) {
		w.R.Fail(eng.Case{Op: "QuoRemWithMode", Args: []string{xb.Hex(), yb.Hex()}, Mode: MName(m),
			Got: gqv.String() + " rem " + grv.String(), Want: wq.String() + " rem " + wr.String(), Note: fmt.Sprintf("x=%s y=%s cell=%s", xv, yv, cell)})
	}
	return cell
}

func init() {
	Replayers["QuoRemWithMode"] = func(c eng.Case) (string, string, error) {
		xb, e1 := ref.ParseHex(c.Args[0])
		yb, e2 := ref.ParseHex(c.Args[1])
		m := ModeIndex(c.Mode)
		if e1 != nil || e2 != nil || m < 0 {
			return "", "", fmt.Errorf("bad case")
		}
		wq, wr, zfree, _ := quoRemWant(ref.Decode(xb), ref.Decode(yb), m)
		gq, gr := D(xb).QuoRemWithMode(D(yb), LibModes[m])
		gqv, grv := V(gq), V(gr)
		want := wq.String() + " rem " + wr.String()
		if (ref.SameValue(gqv, wq) || (zfree && gqv.IsZero())) && ref.SameValue(grv, wr) {
			return want, want, nil
		}
		return gqv.String() + " rem " + grv.String(), want, nil
	}
	Checks["C03"] = Check{C03, "exploration"}
}

func C03(r *eng.Run) {
	r.Rule = "bounded-exhaustive product: coefficient shapes K x K x exponent gaps (every gap in the window, plus +-100..+-12287 where the integer quotient has thousands of digits) x 4 sign combinations x modes (all six when the quotient must be rounded, two when it is exact), plus every leading-digit prefix and word-threshold coefficient against a reduced alphabet; " +
		"oracle = big-integer truncated quotient N (rounded by the mode only if N is not a member) and exact remainder x - y*N with the sign of x; plus the special-operand table. " +
		"Cell = (mode, quotient class: x=0, |x|<|y|, integer fits, fits with >35 digits, rounded, overflow; remainder zero or not); non-trivial = anything but a short exact integer quotient."
	r.Assumptions = []string{"binary codec is the identity on bits (checked at start; decided by C12)", "sign of a zero quotient of finite operands is not pinned by the property and not checked",
		"model bound to the repository's QuoRem vectors on every run"}
	if !CodecSanity(r) {
		return
	}
	t0 := time.Now()
	c03Vectors(r)
	r.Phase("vectors", t0, nil)

	shapes := Shapes(r.Thorough())
	var gaps []int
	for _, g := range Gaps(r.Thorough()) {
		if g >= -80 && g <= 80 {
			gaps = append(gaps, g)
		}
	}
	r.Bounds["coefficient_shapes"] = len(shapes)
	r.Bounds["gaps"] = len(gaps)
	t0 = time.Now()
	r.Par(len(shapes), func(w *eng.W, i int) {
		for _, c2 := range shapes {
			for _, g := range gaps {
				qx, qy, _ := place(g)
				for s := 0; s < 4; s++ {
					xb := MkBits(s&1 == 1, shapes[i], qx)
					yb := MkBits(s&2 == 2, c2, qy)
					checkQuoRemModes(w, xb, yb)
				}
			}
			if w.Stopped() {
				return
			}
		}
	})
	r.Phase("A1 product", t0, nil)

	t0 = time.Now()
	nlead := 2
	if r.Thorough() {
		nlead = 3
	}
	leads := append(append(append(LeadSweep(nlead), WordShapes()...), LimitShapes()...), WeylShapes(48)...)
	sm := SmallShapes()
	r.Bounds["lead_prefix_digits"] = nlead
	r.Par(len(leads), func(w *eng.W, i int) {
		for _, c2 := range sm {
			for _, g := range gaps {
				qx, qy, _ := place(g)
				for s := 0; s < 4; s++ {
					xb := MkBits(s&1 == 1, leads[i], qx)
					yb := MkBits(s&2 == 2, c2, qy)
					for m := 0; m < 6; m += 5 {
						checkQuoRem(w, xb, yb, m)
						checkQuoRem(w, yb, xb, m)
					}
				}
			}
		}
	})
	r.Phase("A1b lead sweep", t0, nil)

	t0 = time.Now()
	small := SmallShapes()
	huge := []int{100, 500, 1000, 3000, 6111, 6176, 12000, 12287}
	if r.Thorough() {
		for g := 81; g < 400; g += 7 {
			huge = append(huge, g)
		}
	}
	r.Bounds["huge_gaps"] = len(huge) * 2
	type job struct{ i, g int }
	var jobs []job
	for i := range small {
		for _, g := range huge {
			jobs = append(jobs, job{i, g}, job{i, -g})
		}
	}
	r.Par(len(jobs), func(w *eng.W, k int) {
		j := jobs[k]
		qx, qy, ok := place(j.g)
		if !ok {
			return
		}
		for _, c2 := range small {
			for s := 0; s < 4; s++ {
				xb := MkBits(s&1 == 1, small[j.i], qx)
				yb := MkBits(s&2 == 2, c2, qy)
				for m := 0; m < 6; m++ {
					checkQuoRem(w, xb, yb, m)
				}
			}
		}
	})
	r.Phase("A2 huge gaps", t0, nil)

	// A3: specials and zeros
	t0 = time.Now()
	sp := specialOperands()
	r.Par(len(sp), func(w *eng.W, i int) {
		for _, y := range sp {
			for m := 0; m < 6; m++ {
				checkQuoRem(w, sp[i], y, m)
			}
		}
	})
	r.Phase("A3 specials", t0, nil)
	for _, c := range []string{"x=0", "|x|<|y|", "int-fits", "int-fits-long", "q-rounded", "q-overflow", "x/inf", "x/0", "0/0", "inf/x", "inf/inf"} {
		r.Require("QuoRem/ToNearestEven/" + c + "*")
	}
}

// specialOperands: NaN/Inf encodings, zeros at several exponents, and a few finite values of both signs.
func specialOperands() []ref.Bits {
	var out []ref.Bits
	for _, hi := range []uint64{0x7c00000000000000, 0xfc00000000000000, 0x7e00000000000000, 0x7c00000000000001, 0x7fffffffffffffff,
		0x7800000000000000, 0xf800000000000000, 0x7a00000000000000, 0xfbffffffffffffff, 0x7900000000000123} {
		out = append(out, ref.FromWords(hi, 0), ref.FromWords(hi, 0x0000000000010203))
	}
	for _, q := range []int{ref.MinQ, -1, 0, 1, ref.MaxQ} {
		out = append(out, MkBits(false, new(big.Int), q), MkBits(true, new(big.Int), q))
	}
	for _, s := range []string{"1", "3", "2", "10", "15", "25", "12345678901234567890123456789012345"} {
		for _, q := range []int{-1, 0, 1, -6176, 6111} {
			out = append(out, MkBits(false, bi(s), q), MkBits(true, bi(s), q))
		}
	}
	return out
}

func c03Vectors(r *eng.Run) {
	vs := ReadVectors(r, "TestDecimalQuoRem")
	if len(vs) == 0 {
		r.SelfFail("no QuoRem vectors")
		return
	}
	bad := 0
	for _, v := range vs {
		i := strings.Index(v.LHS, " / ")
		if i < 0 {
			continue
		}
		al, ok1 := ref.ParseLit(strings.TrimSpace(v.LHS[:i]))
		bl, ok2 := ref.ParseLit(strings.TrimSpace(v.LHS[i+3:]))
		if !ok1 || !ok2 {
			continue
		}
		a, b := ref.RoundLit(al, ref.NearestEven), ref.RoundLit(bl, ref.NearestEven)
		for m := 0; m < 6; m++ {
			k := strings.IndexByte(v.RHS[m], 'r')
			if k < 0 {
				continue
			}
			ql, ok1 := ref.ParseLit(v.RHS[m][:k])
			rl, ok2 := ref.ParseLit(v.RHS[m][k+1:])
			if !ok1 || !ok2 {
				continue
			}
			wq, wr := ref.RoundLit(ql, ref.NearestEven), ref.RoundLit(rl, ref.NearestEven)
			gq, gr, zfree, _ := quoRemWant(a, b, m)
			r.Traces.Add(1)
			okq := ref.SameValue(gq, wq) || (zfree && wq.IsZero())
			if (!okq || !ref.SameValue(gr, wr)) && bad < 5 {
				bad++
				r.SelfFail("model disagrees with repository vector %s:%d %q mode %s: model (%s, %s), vector (%s, %s)", v.File, v.Line, v.LHS, MName(m), gq, gr, wq, wr)
			}
		}
	}
}
