package props

import (
	"fmt"
	"math/big"
	"sync"
	"time"

	"verifmc/eng"
	"verifmc/ref"
)

// arithClosure is the explicit-state search over operation sequences: a state is a 128-bit pattern, a
// transition applies one real arithmetic call with an operand from a small alphabet and a mode. Successors
// are deduplicated on the bit pattern; every transition whose operation is in judge is checked against the
// reference model from the implementation's actual source state, so the model never drifts. After the search
// the transitions of the last level are re-executed in reverse discovery order and must reproduce the same
// bits (dedupe on bits is only sound if results do not depend on call history).
func arithClosure(r *eng.Run, judge map[arithOp]bool, depth, capStates int) {
	t0 := time.Now()
	var seeds []ref.Bits
	for i, c := range SmallShapes() {
		if i%3 != 0 {
			continue
		}
		for _, q := range []int{-40, -1, 0, 7} {
			seeds = append(seeds, MkBits(i%2 == 1, c, q))
		}
	}
	seeds = append(seeds, MkBits(false, big.NewInt(1), ref.MinQ), MkBits(true, ref.Cmax, ref.MaxQ), MkBits(false, big.NewInt(7), ref.MinQ+20), MkBits(false, bi("9999999999999999999999999999999999"), ref.MaxQ-3))
	var operands []ref.Bits
	for _, s := range []string{"1", "3", "7", "0.1", "0.5", "1e-30", "9.999999999999999999999999999999999", "18446744073709551616", "1.298074214633706907132624082305024", "1e-6170", "1e6100", "-2", "1e17", "6e-17"} {
		v := ref.MustLit(s)
		operands = append(operands, MkBits(v.Neg, v.C, v.Q))
	}
	seen := map[ref.Bits]struct{}{}
	var mu sync.Mutex
	frontier := uniqBits(seeds)
	for _, s := range frontier {
		seen[s] = struct{}{}
	}
	type trans struct {
		x, y ref.Bits
		op   arithOp
		m    int
		res  ref.Bits
	}
	var last []trans
	var nTrans int64
	completed := 0
	for d := 1; d <= depth; d++ {
		var next []ref.Bits
		var lvl []trans
		capped := false
		r.Par(len(frontier), func(w *eng.W, i int) {
			xb := frontier[i]
			xv := ref.Decode(xb)
			x := D(xb)
			var local []ref.Bits
			var ltr []trans
			var n int64
			for _, yb := range operands {
				yv := ref.Decode(yb)
				y := D(yb)
				for op := opAdd; op <= opQuo; op++ {
					for m := 0; m < 6; m++ {
						w.Set2(arithNames[op], ref.ModeNames[m], xb, yb)
						rb := B(callArith(op, x, y, m))
						n++
						if judge[op] {
							want, _ := specArith(op, xv, yv, m)
							if !Same(rb, want) && !(want.Class == ref.NaN && ref.Decode(rb).Class == ref.NaN) {
								c := arithCase(op, xb, yb, m, ref.Decode(rb), want)
								c.Note += fmt.Sprintf(" (closure depth %d)", d)
								w.R.Fail(c)
							}
						}
						if ref.Decode(rb).Class == ref.Fin {
							local = append(local, rb)
						}
						if d == depth && (i+int(op)+m)%7 == 0 {
							ltr = append(ltr, trans{xb, yb, op, m, rb})
						}
					}
				}
			}
			w.EvalN(n)
			w.CellN(fmt.Sprintf("closure/depth%d", d), n, true)
			mu.Lock()
			nTrans += n
			for _, b := range local {
				if _, ok := seen[b]; !ok {
					if len(seen) >= capStates {
						capped = true
						break
					}
					seen[b] = struct{}{}
					next = append(next, b)
				}
			}
			lvl = append(lvl, ltr...)
			mu.Unlock()
		})
		last = lvl
		completed = d
		if capped {
			r.Exhaustive = false
			r.Extra["closure_state_cap_hit_at_depth"] = d
			frontier = next
			break
		}
		frontier = next
	}
	// second pass: reverse discovery order, different history
	bad := 0
	r.Seq(func(w *eng.W) {
		for i := len(last) - 1; i >= 0; i-- {
			t := last[i]
			if got := B(callArith(t.op, D(t.x), D(t.y), t.m)); got != t.res {
				bad++
				if bad <= 3 {
					w.R.Fail(eng.Case{Op: "history:" + arithNames[t.op], Args: []string{t.x.Hex(), t.y.Hex()}, Mode: MName(t.m), Got: got.Hex(), Want: t.res.Hex() + " (same call earlier in another history)"})
				}
			}
		}
		w.EvalN(int64(len(last)))
		w.CellN("closure/replayed-in-reverse-order", int64(len(last)), true)
	})
	r.Extra["closure"] = map[string]any{"seeds": len(seeds), "operand_alphabet": len(operands), "depth_completed": completed, "states": len(seen), "transitions": nTrans, "replayed_transitions": len(last), "state_cap": capStates}
	r.Phase("B closure over operation sequences", t0, nil)
}
