package props

import (
	"fmt"
	"math/big"
	"time"

	dec "github.com/woodsbury/decimal128"

	"verifmc/eng"
	"verifmc/ref"
)

// vsig is a canonical rendering of a decoded value: class, sign and cohort-independent numeric value.
func vsig(v ref.Val) string {
	switch v.Class {
	case ref.NaN:
		return "NaN"
	case ref.Inf:
		if v.Neg {
			return "-Inf"
		}
		return "+Inf"
	}
	sg := "+"
	if v.Neg {
		sg = "-"
	}
	if v.C.Sign() == 0 {
		return sg + "0"
	}
	c := new(big.Int).Set(v.C)
	q := v.Q
	ten := big.NewInt(10)
	var r big.Int
	for {
		t := new(big.Int)
		t.QuoRem(c, ten, &r)
		if r.Sign() != 0 {
			break
		}
		c = t
		q++
	}
	return fmt.Sprintf("%s%se%d", sg, c, q)
}

func dsig(d dec.Decimal) string { return vsig(V(d)) }

type unaryObs struct {
	name string
	f    func(d dec.Decimal) string
}

func safeObs(f func() string) (s string) {
	defer func() {
		if e := recover(); e != nil {
			s = fmt.Sprint("panic: ", e)
		}
	}()
	return f()
}

func unaryObservers() []unaryObs {
	out := []unaryObs{
		{"String", func(d dec.Decimal) string { return d.String() }},
		{"MarshalText", func(d dec.Decimal) string { b, _ := d.MarshalText(); return string(b) }},
		{"MarshalJSON", func(d dec.Decimal) string { b, e := d.MarshalJSON(); return fmt.Sprint(string(b), e != nil) }},
		{"MarshalBinary(Canonical)", func(d dec.Decimal) string { b, _ := d.Canonical().MarshalBinary(); return fmt.Sprintf("%x", b) }},
		{"Float64", func(d dec.Decimal) string { return fmt.Sprintf("%x", d.Float64()) }},
		{"Float32", func(d dec.Decimal) string { return fmt.Sprintf("%x", d.Float32()) }},
		{"Float", func(d dec.Decimal) string { return d.Float(nil).Text('p', 0) }},
		{"Float(24)", func(d dec.Decimal) string { return d.Float(new(big.Float).SetPrec(24)).Text('p', 0) }},
		{"Int", func(d dec.Decimal) string { return d.Int(nil).String() }},
		{"Int64", func(d dec.Decimal) string { return fmt.Sprint(d.Int64()) }},
		{"Int32", func(d dec.Decimal) string { return fmt.Sprint(d.Int32()) }},
		{"Uint64", func(d dec.Decimal) string { return fmt.Sprint(d.Uint64()) }},
		{"Uint32", func(d dec.Decimal) string { return fmt.Sprint(d.Uint32()) }},
		{"Rat", func(d dec.Decimal) string { return d.Rat(nil).String() }},
		{"Decompose", func(d dec.Decimal) string {
			f, n, c, e := d.Decompose(nil)
			if f != 0 {
				return fmt.Sprint(f, n)
			}
			return vsig(ref.Val{Class: ref.Fin, Neg: n, C: new(big.Int).SetBytes(c), Q: int(e)})
		}},
		{"Frexp", func(d dec.Decimal) string { f, e := dec.Frexp(d); return fmt.Sprint(dsig(f), " ", e) }},
		{"IsZero/Sign/Signbit/IsNaN/IsInf", func(d dec.Decimal) string {
			return fmt.Sprint(d.IsZero(), d.Signbit(), d.IsNaN(), d.IsInf(0), safeObs(func() string { return fmt.Sprint(d.Sign()) }))
		}},
		{"Abs", func(d dec.Decimal) string { return dsig(dec.Abs(d)) }},
		{"Neg", func(d dec.Decimal) string { return dsig(d.Neg()) }},
		{"Ceil", func(d dec.Decimal) string { return dsig(dec.Ceil(d)) }},
		{"Floor", func(d dec.Decimal) string { return dsig(dec.Floor(d)) }},
		{"Round", func(d dec.Decimal) string { return dsig(dec.Round(d)) }},
		{"Trunc", func(d dec.Decimal) string { return dsig(dec.Trunc(d)) }},
		{"Exp", func(d dec.Decimal) string { return dsig(dec.Exp(d)) }},
		{"Exp2", func(d dec.Decimal) string { return dsig(dec.Exp2(d)) }},
		{"Exp10", func(d dec.Decimal) string { return dsig(dec.Exp10(d)) }},
		{"Expm1", func(d dec.Decimal) string { return dsig(dec.Expm1(d)) }},
		{"Log", func(d dec.Decimal) string { return dsig(dec.Log(d)) }},
		{"Log2", func(d dec.Decimal) string { return dsig(dec.Log2(d)) }},
		{"Log10", func(d dec.Decimal) string { return dsig(dec.Log10(d)) }},
		{"Log1p", func(d dec.Decimal) string { return dsig(dec.Log1p(d)) }},
		{"Sqrt", func(d dec.Decimal) string { return dsig(dec.Sqrt(d)) }},
		{"Cbrt", func(d dec.Decimal) string { return dsig(dec.Cbrt(d)) }},
	}
	for _, dp := range []int{-3, -1, 0, 1, 2, 5, 33} {
		dp := dp
		out = append(out, unaryObs{fmt.Sprintf("Ceil(%d)", dp), func(d dec.Decimal) string { return dsig(d.Ceil(dp)) }},
			unaryObs{fmt.Sprintf("Floor(%d)", dp), func(d dec.Decimal) string { return dsig(d.Floor(dp)) }})
		for m := 0; m < 6; m++ {
			mm := LibModes[m]
			out = append(out, unaryObs{fmt.Sprintf("Round(%d,%s)", dp, MName(m)), func(d dec.Decimal) string { return dsig(d.Round(dp, mm)) }})
		}
	}
	for _, k := range []int{-40, -3, 0, 2, 40} {
		k := k
		out = append(out, unaryObs{fmt.Sprintf("Ldexp(%d)", k), func(d dec.Decimal) string { return dsig(dec.Ldexp(d, k)) }})
	}
	for _, verb := range []byte("efg") {
		for _, p := range []int{-1, 0, 1, 3, 10, 34, 40} {
			verb, p := verb, p
			out = append(out, unaryObs{fmt.Sprintf("Format(%c,%d)", verb, p), func(d dec.Decimal) string { return dec.Format(d, verb, p) }})
		}
	}
	for _, sp := range []string{"%v", "%e", "%f", "%g", "%+.3e", "%012.4f", "%-10.2g|", "%#.5G", "% .0f", "%20.10e"} {
		sp := sp
		out = append(out, unaryObs{"Sprintf(" + sp + ")", func(d dec.Decimal) string { return fmt.Sprintf(sp, d) }})
	}
	return out
}

type binaryObs struct {
	name string
	f    func(x, y dec.Decimal) string
}

func binaryObservers() []binaryObs {
	out := []binaryObs{
		{"Cmp", func(x, y dec.Decimal) string {
			return fmt.Sprint(int(x.Cmp(y)), int(x.CmpAbs(y)), x.Equal(y), dec.Compare(x, y))
		}},
		{"Min", func(x, y dec.Decimal) string { return dsig(dec.Min(x, y)) }},
		{"Max", func(x, y dec.Decimal) string { return dsig(dec.Max(x, y)) }},
		{"Add", func(x, y dec.Decimal) string { return dsig(x.Add(y)) }},
		{"Sub", func(x, y dec.Decimal) string { return dsig(x.Sub(y)) }},
		{"Mul", func(x, y dec.Decimal) string { return dsig(x.Mul(y)) }},
		{"Quo", func(x, y dec.Decimal) string { return dsig(x.Quo(y)) }},
		{"Pow", func(x, y dec.Decimal) string { return dsig(x.Pow(y)) }},
		{"QuoRem", func(x, y dec.Decimal) string { q, r := x.QuoRem(y); return dsig(q) + " r " + dsig(r) }},
	}
	for m := 1; m < 6; m++ {
		mm := LibModes[m]
		n := MName(m)
		out = append(out,
			binaryObs{"AddWithMode/" + n, func(x, y dec.Decimal) string { return dsig(x.AddWithMode(y, mm)) }},
			binaryObs{"SubWithMode/" + n, func(x, y dec.Decimal) string { return dsig(x.SubWithMode(y, mm)) }},
			binaryObs{"MulWithMode/" + n, func(x, y dec.Decimal) string { return dsig(x.MulWithMode(y, mm)) }},
			binaryObs{"QuoWithMode/" + n, func(x, y dec.Decimal) string { return dsig(x.QuoWithMode(y, mm)) }},
			binaryObs{"PowWithMode/" + n, func(x, y dec.Decimal) string { return dsig(x.PowWithMode(y, mm)) }},
			binaryObs{"QuoRemWithMode/" + n, func(x, y dec.Decimal) string { q, r := x.QuoRemWithMode(y, mm); return dsig(q) + " r " + dsig(r) }})
	}
	return out
}

type cohortVal struct {
	name string
	mem  []ref.Bits
}

func cohortBase(thorough bool) []cohortVal {
	var out []cohortVal
	coefs := []string{"1", "2", "3", "5", "7", "9", "12", "25", "99", "123", "125", "1024", "65536", "999999", "12345678901234567", "18446744073709551615", "18446744073709551617", "9999999999999999999999999", "1234567890123456789012345678901234", "5", "15", "1000000001"}
	exps := []int{-30, -7, -2, -1, 0, 1, 3, 20}
	if thorough {
		exps = append(exps, -100, 100, -35, 35)
	}
	seen := map[string]bool{}
	add := func(neg bool, c *big.Int, q int) {
		cs, qs := Cohort(c, q)
		if len(cs) == 0 {
			return
		}
		cv := cohortVal{name: vsig(ref.Val{Class: ref.Fin, Neg: neg, C: c, Q: q})}
		if seen[cv.name] {
			return
		}
		seen[cv.name] = true
		for k := range cs {
			cv.mem = append(cv.mem, MkBits(neg, cs[k], qs[k]))
		}
		out = append(out, cv)
	}
	for _, cs := range coefs {
		for _, q := range exps {
			add(false, bi(cs), q)
			add(true, bi(cs), q)
		}
	}
	// range ends: cohorts cut by the exponent limits
	for _, cs := range []string{"1", "123", "5"} {
		add(false, bi(cs), ref.MinQ)
		add(false, bi(cs), ref.MinQ+3)
		add(true, bi(cs), ref.MaxQ)
		add(false, bi(cs), ref.MaxQ+20)
	}
	// zeros: a sample of exponents per sign (every exponent is covered in the Canonical sweep)
	for s := 0; s < 2; s++ {
		cv := cohortVal{name: []string{"+0", "-0"}[s]}
		for _, q := range []int{ref.MinQ, ref.MinQ + 1, -6000, -398, -35, -7, -1, 0, 1, 2, 19, 35, 308, 6000, ref.MaxQ - 1, ref.MaxQ} {
			cv.mem = append(cv.mem, MkBits(s == 1, new(big.Int), q))
		}
		out = append(out, cv)
	}
	// specials: encodings of the same special value
	out = append(out, cohortVal{"+Inf", []ref.Bits{ref.FromWords(0x7800000000000000, 0), ref.FromWords(0x7a00000000000abc, 77), ref.FromWords(0x7bffffffffffffff, ^uint64(0))}})
	out = append(out, cohortVal{"-Inf", []ref.Bits{ref.FromWords(0xf800000000000000, 0), ref.FromWords(0xfa00000000000abc, 77), ref.FromWords(0xfbffffffffffffff, ^uint64(0))}})
	return out
}

// canonicalWant: the exponent closest to zero that still holds all digits.
func canonicalWant(v ref.Val) ref.Bits {
	switch v.Class {
	case ref.NaN:
		return ref.FromWords(0x7c00000000000000, 0)
	case ref.Inf:
		return ref.EncInf(v.Neg)
	}
	if v.C.Sign() == 0 {
		if v.Neg {
			return ref.FromWords(1<<63, 0)
		}
		return ref.FromWords(0, 0)
	}
	cs, qs := Cohort(v.C, v.Q)
	best := 0
	for k := range qs {
		if absInt(qs[k]) < absInt(qs[best]) {
			best = k
		}
	}
	return MkBits(v.Neg, cs[best], qs[best])
}

func absInt(a int) int {
	if a < 0 {
		return -a
	}
	return a
}

func checkCanonical(w *eng.W, b ref.Bits) {
	v := ref.Decode(b)
	w.Set1("Canonical", "", b)
	g := D(b).Canonical()
	gb := B(g)
	w.Eval()
	want := canonicalWant(v)
	if v.Class == ref.NaN {
		// the sign of a canonical NaN is not pinned
		if gb.Hi()&^(1<<63) != want.Hi() || gb.Lo() != want.Lo() {
			w.R.Fail(eng.Case{Op: "Canonical", Args: []string{b.Hex()}, Got: gb.Hex(), Want: want.Hex() + " (payload stripped)"})
		}
		return
	}
	if gb != want {
		w.R.Fail(eng.Case{Op: "Canonical", Args: []string{b.Hex()}, Got: gb.Hex() + " " + ref.Decode(gb).String(), Want: want.Hex() + " " + ref.Decode(want).String(), Note: v.String()})
		return
	}
	if g2 := B(g.Canonical()); g2 != gb {
		w.R.Fail(eng.Case{Op: "Canonical", Args: []string{gb.Hex()}, Got: g2.Hex(), Want: gb.Hex() + " (idempotent)"})
	}
}

func init() {
	Replayers["Canonical"] = func(c eng.Case) (string, string, error) {
		b, err := ref.ParseHex(c.Args[0])
		if err != nil {
			return "", "", err
		}
		return B(D(b).Canonical()).Hex(), canonicalWant(ref.Decode(b)).Hex(), nil
	}
	Checks["C19"] = Check{C19, "model_checking"}
}

func C19(r *eng.Run) {
	r.Rule = "cohort closure: state = an encoding, transition = x10 / /10 of the coefficient with the exponent compensating, generating every member of a value's cohort (<=35; a 16-exponent sample for zeros; garbage-bit encodings of Inf). " +
		"For every base value and every unary observer (text, JSON, formatting at many precisions/specs, binary floats, integers, rationals, Decompose, Frexp/Ldexp, rounding at many dp and modes, Exp..Cbrt) all cohort members must give the identical observation; " +
		"for every ordered pair of base values and every binary operation (arithmetic in all modes, Pow, QuoRem, comparisons, Min/Max) the observation must be identical when one operand (all pairs) or both operands (reduced base set: full member x member product) range over their cohorts. " +
		"No numeric oracle is involved: the executions are required to be indistinguishable. Canonical: equals the oracle's normal form (exponent closest to zero holding all digits) bit for bit, idempotent, sign kept, payload/garbage stripped, over shapes x every exponent and all specials. " +
		"states = encodings visited, transitions = operation executions compared."
	r.Assumptions = []string{"binary codec is the identity on bits (checked at start; decided by C12)", "the sign of Canonical(NaN) is not pinned by the property and not checked"}
	if !CodecSanity(r) {
		return
	}
	base := cohortBase(r.Thorough())
	nenc := 0
	for _, b := range base {
		nenc += len(b.mem)
	}
	r.Bounds["base_values"] = len(base)
	r.Bounds["encodings"] = nenc
	r.States.Add(int64(nenc))
	uobs := unaryObservers()
	bobs := binaryObservers()
	r.Bounds["unary_observers"] = len(uobs)
	r.Bounds["binary_observers"] = len(bobs)

	t0 := time.Now()
	r.Par(len(base), func(w *eng.W, i int) {
		cv := base[i]
		for _, ob := range uobs {
			var first string
			for k, m := range cv.mem {
				w.Set1(ob.name, "", m)
				g := safeObs(func() string { return ob.f(D(m)) })
				w.Eval()
				if k == 0 {
					first = g
				} else if g != first {
					w.R.Fail(eng.Case{Op: ob.name, Args: []string{cv.mem[0].Hex(), m.Hex()}, Got: trunc(g), Want: trunc(first) + " (as for the other encoding of " + cv.name + ")"})
					break
				}
			}
		}
		w.CellN("unary/cohort-size-"+itoa(len(cv.mem)), int64(len(uobs)*len(cv.mem)), len(cv.mem) > 1)
	})
	r.Transitions.Add(r.Evals())
	r.Phase("unary observers", t0, nil)

	t0 = time.Now()
	type pair struct{ i, j int }
	var pairs []pair
	for i := range base {
		for j := range base {
			if r.Thorough() || (i%4 == 0 && j%4 == 0) || len(base[i].mem) <= 3 && len(base[j].mem) <= 3 || (i+3*j)%29 == 0 {
				pairs = append(pairs, pair{i, j})
			}
		}
	}
	r.Bounds["binary_base_pairs"] = len(pairs)
	reduced := map[int]bool{}
	for i := range base {
		if i%9 == 0 || len(base[i].mem) <= 3 {
			reduced[i] = true
		}
	}
	r.Par(len(pairs), func(w *eng.W, k int) {
		p := pairs[k]
		x, y := base[p.i], base[p.j]
		full := reduced[p.i] && reduced[p.j]
		var n int64
		for _, ob := range bobs {
			first := safeObs(func() string { return ob.f(D(x.mem[0]), D(y.mem[0])) })
			chk := func(a, b ref.Bits) bool {
				w.Set2(ob.name, "", a, b)
				g := safeObs(func() string { return ob.f(D(a), D(b)) })
				n++
				if g != first {
					w.R.Fail(eng.Case{Op: ob.name, Args: []string{a.Hex(), b.Hex()}, Got: trunc(g), Want: trunc(first) + fmt.Sprintf(" (as for the encodings %s, %s of %s and %s)", x.mem[0].Hex(), y.mem[0].Hex(), x.name, y.name)})
					return false
				}
				return true
			}
			ok := true
			if full {
				for _, a := range x.mem {
					for _, b := range y.mem {
						if ok = chk(a, b); !ok {
							break
						}
					}
					if !ok {
						break
					}
				}
			} else {
				for _, a := range x.mem[1:] {
					if ok = chk(a, y.mem[0]); !ok {
						break
					}
				}
				for _, b := range y.mem[1:] {
					if !ok {
						break
					}
					ok = chk(x.mem[0], b)
				}
				if ok && len(x.mem) > 1 && len(y.mem) > 1 {
					chk(x.mem[len(x.mem)-1], y.mem[len(y.mem)-1])
					chk(x.mem[len(x.mem)/2], y.mem[len(y.mem)/2])
				}
			}
		}
		w.EvalN(n)
		if full {
			w.CellN("binary/full-product", n, true)
		} else {
			w.CellN("binary/one-side-at-a-time", n, true)
		}
	})
	r.Transitions.Add(r.Evals())
	r.Phase("binary observers", t0, nil)

	// near-equal pairs: K*10^g (every cohort member) against K*10^g + delta (every cohort member), the shapes on
	// which a comparison or subtraction that drops digits stage by stage can become encoding-dependent
	t0 = time.Now()
	type ne struct {
		k     int64
		g     int
		delta *big.Int
	}
	var nes []ne
	for _, k := range []int64{1, 7, 99, 123, 1024} {
		for g := 1; g <= 34; g++ {
			ds := []*big.Int{big.NewInt(1), big.NewInt(-1), new(big.Int).Mul(big.NewInt(5), ref.Pow10(g-1))}
			for j := 1; j < g; j += 3 {
				ds = append(ds, ref.Pow10(j))
			}
			for _, d := range ds {
				nes = append(nes, ne{k, g, d})
			}
		}
	}
	r.Bounds["near_equal_pairs"] = len(nes)
	cmpObs := []binaryObs{bobs[0], bobs[1], bobs[2], bobs[4], bobs[8]}
	r.Par(len(nes), func(w *eng.W, i int) {
		e := nes[i]
		K := big.NewInt(e.k)
		big10 := new(big.Int).Mul(K, ref.Pow10(e.g))
		other := new(big.Int).Add(big10, e.delta)
		if other.Sign() <= 0 || other.Cmp(ref.Cmax) > 0 {
			return
		}
		for _, q := range []int{0, -40, ref.MinQ} {
			xc, xq := Cohort(K, q+e.g)
			yc, yq := Cohort(other, q)
			var n int64
			for s := 0; s < 2; s++ {
				for _, ob := range cmpObs {
					for _, swap := range []bool{false, true} {
						var first string
						for a := range xc {
							for b := range yc {
								xb, yb := MkBits(s == 1, xc[a], xq[a]), MkBits(s == 1, yc[b], yq[b])
								if swap {
									xb, yb = yb, xb
								}
								g := safeObs(func() string { return ob.f(D(xb), D(yb)) })
								n++
								if a == 0 && b == 0 {
									first = g
								} else if g != first {
									w.R.Fail(eng.Case{Op: ob.name, Args: []string{xb.Hex(), yb.Hex()}, Got: trunc(g), Want: trunc(first) + " (as for other encodings of the same two values)", Note: fmt.Sprintf("%s vs %s", ref.Decode(xb), ref.Decode(yb))})
									a, b = len(xc), len(yc)
									break
								}
							}
						}
					}
				}
			}
			w.EvalN(n)
			w.CellN("binary/near-equal-pairs", n, true)
		}
	})
	r.Transitions.Add(r.Evals())
	r.Phase("near-equal pairs", t0, nil)

	// Canonical over shapes x every exponent, zeros, specials
	t0 = time.Now()
	shapes := Shapes(r.Thorough())
	var coefs []*big.Int
	for _, c := range shapes {
		for _, z := range []int{0, 1, 2, 7, 18, 19, 33} {
			cc := new(big.Int).Mul(c, ref.Pow10(z))
			if cc.Cmp(ref.Cmax) <= 0 {
				coefs = append(coefs, cc)
			}
		}
	}
	coefs = dedupe(coefs)
	r.Bounds["canonical_coefficients"] = len(coefs)
	r.Par(len(coefs), func(w *eng.W, i int) {
		for q := ref.MinQ; q <= ref.MaxQ; q++ {
			checkCanonical(w, MkBits(q%2 == 0, coefs[i], q))
		}
		w.CellN("canonical/finite", int64(ref.MaxQ-ref.MinQ+1), true)
	})
	r.Par(2, func(w *eng.W, s int) {
		for q := ref.MinQ; q <= ref.MaxQ; q++ {
			checkCanonical(w, MkBits(s == 1, new(big.Int), q))
		}
		w.CellN("canonical/zero", int64(ref.MaxQ-ref.MinQ+1), true)
	})
	r.Par(1<<12, func(w *eng.W, k int) {
		// every special prefix pattern: top 5 bits 11110/11111 with the next 12 bits varying, x low shapes
		for _, sh := range lowShapes() {
			for s := uint64(0); s < 2; s++ {
				for n := uint64(0); n < 2; n++ {
					hi := s<<63 | 0x7800000000000000 | n<<58 | uint64(k)<<46 | sh[0]&0x3fffffffffff
					checkCanonical(w, ref.FromWords(hi, sh[1]))
				}
			}
		}
		w.Cell("canonical/special", true)
	})
	r.Traces.Add(r.Evals())
	r.Phase("Canonical", t0, nil)

	// R: Canonical of values reached by operation sequences, and of every cohort member of a stride of them
	reachedPhase(r, "R values reached by operation sequences", reachedAll(r), func(w *eng.W, b ref.Bits, v ref.Val) {
		checkCanonical(w, b)
		if b[15]%8 == 0 {
			cs, qs := Cohort(v.C, v.Q)
			want := B(D(b).Canonical())
			for i := range cs {
				mb := MkBits(v.Neg, cs[i], qs[i])
				w.Eval()
				if g := B(D(mb).Canonical()); g != want {
					w.R.Fail(eng.Case{Op: "Canonical", Args: []string{mb.Hex()}, Got: g.Hex(), Want: want.Hex() + " (Canonical of the cohort member " + b.Hex() + " of the same value)"})
				}
			}
		}
	})
	r.Require("unary/cohort-size-35", "binary/full-product", "binary/one-side-at-a-time", "canonical/finite", "canonical/zero", "canonical/special")
}
