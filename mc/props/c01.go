package props

import (
	"fmt"
	"math/big"
	"strings"
	"time"

	dec "github.com/woodsbury/decimal128"

	"verifmc/eng"
	"verifmc/ref"
)

// ---- shared arithmetic checking ------------------------------------------------------------

type arithOp int

const (
	opAdd arithOp = iota
	opSub
	opMul
	opQuo
)

var arithNames = []string{"AddWithMode", "SubWithMode", "MulWithMode", "QuoWithMode"}

func callArith(op arithOp, x, y dec.Decimal, m int) dec.Decimal {
	switch op {
	case opAdd:
		return x.AddWithMode(y, LibModes[m])
	case opSub:
		return x.SubWithMode(y, LibModes[m])
	case opMul:
		return x.MulWithMode(y, LibModes[m])
	default:
		return x.QuoWithMode(y, LibModes[m])
	}
}

func callArithDefault(op arithOp, x, y dec.Decimal) dec.Decimal {
	switch op {
	case opAdd:
		return x.Add(y)
	case opSub:
		return x.Sub(y)
	case opMul:
		return x.Mul(y)
	default:
		return x.Quo(y)
	}
}

func specArith(op arithOp, xv, yv ref.Val, m int) (ref.Val, ref.RInfo) {
	switch op {
	case opAdd:
		return ref.Add(xv, yv, false, Modes[m])
	case opSub:
		return ref.Add(xv, yv, true, Modes[m])
	case opMul:
		return ref.Mul(xv, yv, Modes[m])
	default:
		return ref.Quo(xv, yv, Modes[m])
	}
}

// rcells is a dense counter over (op, mode, sign, guard class, sticky, parity, event).
type rcells struct {
	n    [4 * 6 * 2 * 4 * 2 * 2 * 10]int64
	samp map[int]string
}

var events = []string{"", "carry", "seam", "subnormal", "tiny0", "overflow", "zero", "cancel", "exact", "other"}

func evIdx(e string) int {
	for i, s := range events {
		if s == e {
			return i
		}
	}
	return len(events) - 1
}

func guardClass(g int) int {
	switch {
	case g == 0:
		return 0
	case g < 5:
		return 1
	case g == 5:
		return 2
	}
	return 3
}

var guardNames = []string{"g0", "g1-4", "g5", "g6-9"}

func (c *rcells) add(op arithOp, m int, neg bool, info ref.RInfo) int {
	ev := info.Event
	if ev == "" && info.Exact {
		ev = "exact"
	}
	i := int(op)
	i = i*6 + m
	i = i*2 + b2i(neg)
	i = i*4 + guardClass(info.Guard)
	i = i*2 + b2i(info.Sticky)
	i = i*2 + b2i(info.OddKept)
	i = i*10 + evIdx(ev)
	c.n[i]++
	return i
}

func (c *rcells) flush(w *eng.W) {
	for i, n := range c.n {
		if n == 0 {
			continue
		}
		j := i
		ev := j % 10
		j /= 10
		odd := j % 2
		j /= 2
		st := j % 2
		j /= 2
		g := j % 4
		j /= 4
		ng := j % 2
		j /= 2
		m := j % 6
		j /= 6
		name := fmt.Sprintf("%s/%s/neg%d/%s/sticky%d/odd%d/%s", arithNames[j], ref.ModeNames[m], ng, guardNames[g], st, odd, events[ev])
		nontrivial := !(events[ev] == "exact" || events[ev] == "zero")
		w.CellN(name, n, nontrivial)
		if s, ok := c.samp[i]; ok {
			w.Sample(name, s)
		}
	}
}

func b2i(b bool) int {
	if b {
		return 1
	}
	return 0
}

func arithCase(op arithOp, xb, yb ref.Bits, m int, got, want ref.Val) eng.Case {
	return eng.Case{Op: arithNames[op], Args: []string{xb.Hex(), yb.Hex()}, Mode: MName(m), Got: got.String(), Want: want.String(),
		Note: fmt.Sprintf("x=%s y=%s", ref.Decode(xb), ref.Decode(yb))}
}

// checkPicked compares the library's result for one mode with the value picked from a prepared exact result.
func checkPicked(w *eng.W, cl *rcells, op arithOp, x, y dec.Decimal, xb, yb ref.Bits, m int, want ref.Val, info ref.RInfo) {
	w.Set2(arithNames[op], ref.ModeNames[m], xb, yb)
	gb := B(callArith(op, x, y, m))
	w.Eval()
	ci := cl.add(op, m, want.Neg, info)
	if !Same(gb, want) {
		got := ref.Decode(gb)
		// re-execute 5 times: a verdict is only believed if it reproduces
		for k := 0; k < 5; k++ {
			if g2 := V(callArith(op, x, y, m)); !ref.SameValue(g2, got) || g2.String() != got.String() {
				w.R.SelfFail("nondeterministic result for %s(%s,%s)", arithNames[op], xb.Hex(), yb.Hex())
				return
			}
		}
		w.R.Fail(arithCase(op, xb, yb, m, got, want))
	} else if cl.samp != nil && len(cl.samp) < 64 {
		if _, ok := cl.samp[ci]; !ok {
			cl.samp[ci] = fmt.Sprintf("%s(%s, %s) = %s", arithNames[op], ref.Decode(xb), ref.Decode(yb), ref.Decode(gb))
		}
	}
}

func replayArith(c eng.Case) (string, string, error) {
	op := -1
	for i, n := range arithNames {
		if n == c.Op {
			op = i
		}
	}
	m := ModeIndex(c.Mode)
	if op < 0 || m < 0 || len(c.Args) != 2 {
		return "", "", fmt.Errorf("bad arith case")
	}
	xb, e1 := ref.ParseHex(c.Args[0])
	yb, e2 := ref.ParseHex(c.Args[1])
	if e1 != nil || e2 != nil {
		return "", "", fmt.Errorf("bad bits")
	}
	got := V(callArith(arithOp(op), D(xb), D(yb), m))
	want, _ := specArith(arithOp(op), ref.Decode(xb), ref.Decode(yb), m)
	if ref.SameValue(got, want) {
		return want.String(), want.String(), nil
	}
	return got.String(), want.String(), nil
}

func init() {
	for _, n := range arithNames {
		Replayers[n] = replayArith
	}
}

// place chooses exponents (qx,qy) with qx-qy = gap, both in range, as close to 0 as possible.
func place(gap int) (int, int, bool) {
	if gap > ref.MaxQ-ref.MinQ || -gap > ref.MaxQ-ref.MinQ {
		return 0, 0, false
	}
	qy := 0
	if gap >= 0 {
		if gap > ref.MaxQ {
			qy = ref.MaxQ - gap
		}
	} else {
		if gap < ref.MinQ {
			qy = ref.MinQ - gap
		}
	}
	return qy + gap, qy, true
}

// addPair checks Add and Sub for |x|=c1*10^qx, |y|=c2*10^qy over 4 sign combinations and 6 modes,
// preparing the two exact magnitudes (sum, difference) once.
func addPair(w *eng.W, cl *rcells, c1 *big.Int, qx int, c2 *big.Int, qy int) {
	xp := ref.Val{Class: ref.Fin, C: c1, Q: qx}
	yp := ref.Val{Class: ref.Fin, C: c2, Q: qy}
	var sum, diff *ref.Prepared
	var dneg bool
	_, sc, sq := ref.ExactSum(xp, yp, false)
	sum = ref.Prep(false, sc, big.NewInt(1), sq)
	var dc *big.Int
	var dq int
	dneg, dc, dq = ref.ExactSum(xp, yp, true)
	if dc.Sign() != 0 {
		diff = ref.Prep(false, dc, big.NewInt(1), dq)
	}
	for sx := 0; sx < 2; sx++ {
		xb := MkBits(sx == 1, c1, qx)
		x := D(xb)
		for sy := 0; sy < 2; sy++ {
			yb := MkBits(sy == 1, c2, qy)
			y := D(yb)
			for _, op := range []arithOp{opAdd, opSub} {
				sye := (sy == 1) != (op == opSub)
				for m := 0; m < 6; m++ {
					var want ref.Val
					var info ref.RInfo
					if (sx == 1) == sye {
						want, info = sum.WithNeg(sx == 1).Pick(Modes[m])
					} else if diff == nil {
						want, info = ref.Zero(Modes[m] == ref.ToNegInf), ref.RInfo{Exact: true, Event: "cancel"}
					} else {
						want, info = diff.WithNeg((sx == 1) != dneg).Pick(Modes[m])
					}
					checkPicked(w, cl, op, x, y, xb, yb, m, want, info)
				}
			}
		}
	}
}

func C01(r *eng.Run) {
	r.Rule = "bounded-exhaustive product: coefficient shapes K x K x exponent gaps G x 4 sign combinations x {Add,Sub} x 6 modes, " +
		"plus every leading-digit prefix and word-threshold coefficient against a reduced alphabet at every gap, guard/sticky decision-table drive (full-precision K + tail at every alignment; tails = guard digit x sticky patterns incl. a single non-zero digit at each later position), zero/cancellation identities over cohorts, " +
		"range ends, Add/Sub == WithMode under every DefaultRoundingMode, and an explicit-state closure over Add/Sub/Mul/Quo sequences (depth 2 quick / 3 thorough, dedupe on bits, every transition judged from its real source state); each result decoded by an independent BID decoder and compared (value+sign+class) " +
		"with exact big-integer sum rounded by the specification. A cell = (op, mode, result sign, guard class, sticky, kept-digit parity, event) computed on the oracle side; " +
		"non-trivial = the exact result was not representable or hit a special rule (cancel/overflow/subnormal/seam/carry)."
	r.Assumptions = []string{"binary codec is the identity on bits (checked at start; decided by C12)",
		"reference rounding model bound to the repository's own Add/Sub vectors on every run"}
	if !CodecSanity(r) {
		return
	}
	t0 := time.Now()
	arithVectors(r, "TestDecimalAdd", " + ", opAdd)
	arithVectors(r, "TestDecimalSub", " - ", opSub)
	r.Phase("vectors", t0, nil)

	shapes := Shapes(r.Thorough())
	gaps := Gaps(r.Thorough())
	r.Bounds["coefficient_shapes"] = len(shapes)
	r.Bounds["gaps"] = len(gaps)

	// A1: full product at mid-range
	t0 = time.Now()
	r.Par(len(shapes), func(w *eng.W, i int) {
		cl := &rcells{samp: map[int]string{}}
		for _, c2 := range shapes {
			for _, g := range gaps {
				qx, qy, ok := place(g)
				if !ok {
					continue
				}
				addPair(w, cl, shapes[i], qx, c2, qy)
			}
			if w.Stopped() {
				break
			}
		}
		cl.flush(w)
	})
	r.Phase("A1 product", t0, nil)

	// A1b: every leading-digit prefix (value windows opened by slightly wrong guard constants)
	t0 = time.Now()
	nlead := 2
	if r.Thorough() {
		nlead = 3
	}
	leads := append(append(append(LeadSweep(nlead), WordShapes()...), LimitShapes()...), WeylShapes(48)...)
	sm := SmallShapes()
	r.Bounds["lead_prefix_digits"] = nlead
	r.Par(len(leads), func(w *eng.W, i int) {
		cl := &rcells{}
		for _, c2 := range sm {
			for _, g := range gaps {
				if g < -80 || g > 80 {
					continue
				}
				qx, qy, _ := place(g)
				addPair(w, cl, leads[i], qx, c2, qy)
			}
		}
		cl.flush(w)
	})
	r.Phase("A1b lead sweep", t0, nil)

	// A2: decision-table drive
	t0 = time.Now()
	var full []*big.Int
	for _, s := range shapes {
		if ref.NumDigits(s) >= 33 {
			full = append(full, s)
		}
	}
	tails := tailAlphabet()
	r.Bounds["full_precision_shapes"] = len(full)
	r.Bounds["tails"] = len(tails)
	r.Par(len(full), func(w *eng.W, i int) {
		cl := &rcells{samp: map[int]string{}}
		for _, tl := range tails {
			L := ref.NumDigits(tl)
			for off := 0; off <= 12; off++ {
				t := L + off
				for _, e := range []int{0, 40} {
					addPair(w, cl, full[i], e, tl, e-t)
					addPair(w, cl, tl, e-t, full[i], e)
				}
			}
		}
		cl.flush(w)
	})
	r.Phase("A2 decision table", t0, nil)

	// A2c: the swallowed operand in every cohort encoding: y = K*10^z (K with non-zero low and middle digits) placed so
	// that t = 1..40 of its digits fall below x's last digit; alignment shifts the raw coefficient block by block, so
	// trailing zeros inside the coefficient change which block drops which digit
	t0 = time.Now()
	var cohK []*big.Int
	for _, s := range []string{"70000003", "10000001", "12345678", "99999999", "5", "15", "25", "50000005", "1000000000000001", "30000000000000007"} {
		cohK = append(cohK, bi(s))
	}
	xs := []*big.Int{big.NewInt(1), bi("9999999999999999999999999999999999"), bi(gen1[:34]), bi("1000000000000000000000000000000000"), bi("12980742146337069071326240823050239"), big.NewInt(7)}
	r.Par(len(cohK), func(w *eng.W, i int) {
		cl := &rcells{}
		K := cohK[i]
		L := ref.NumDigits(K)
		for z := 0; z+L <= 35; z++ {
			c := new(big.Int).Mul(K, ref.Pow10(z))
			if c.Cmp(ref.Cmax) > 0 {
				break
			}
			for _, x := range xs {
				for t := 1; t <= 40; t++ {
					// value of y = K * 10^(-t - (L-1))... top digit of K sits t places below x's unit digit
					qy := -t - (L - 1) - z
					addPair(w, cl, x, 0, c, qy)
					addPair(w, cl, c, qy, x, 0)
				}
			}
		}
		cl.flush(w)
	})
	r.Phase("A2c cohort encodings of the swallowed operand", t0, nil)

	// A3: zeros, cancellation over cohorts
	t0 = time.Now()
	c01Zeros(r, shapes)
	r.Phase("A3 zeros/cancellation", t0, nil)

	// A4: range ends
	t0 = time.Now()
	small := SmallShapes()
	r.Bounds["range_shapes"] = len(small)
	r.Par(len(small), func(w *eng.W, i int) {
		cl := &rcells{samp: map[int]string{}}
		for _, c2 := range small {
			for g := -40; g <= 40; g++ {
				for _, k := range []int{0, 1, 2, 5} {
					// bottom: lower exponent at MinQ+k
					lo := ref.MinQ + k
					if g >= 0 {
						addPair(w, cl, small[i], lo+g, c2, lo)
					} else {
						addPair(w, cl, small[i], lo, c2, lo-g)
					}
					hi := ref.MaxQ - k
					if g >= 0 {
						addPair(w, cl, small[i], hi, c2, hi-g)
					} else {
						addPair(w, cl, small[i], hi+g, c2, hi)
					}
				}
			}
		}
		cl.flush(w)
	})
	r.Phase("A4 range ends", t0, nil)

	// A5: Add/Sub equal the WithMode forms under every DefaultRoundingMode
	t0 = time.Now()
	defaultModeSweep(r, []arithOp{opAdd, opSub}, small)
	r.Phase("A5 default mode", t0, nil)

	// B: closure over operation sequences (states reached only after two or three operations)
	depth, capStates := 2, 400000
	if r.Thorough() {
		depth, capStates = 3, 3000000
	}
	arithClosure(r, map[arithOp]bool{opAdd: true, opSub: true}, depth, capStates)

	for m := 0; m < 6; m++ {
		for _, g := range []string{"g0", "g1-4", "g5", "g6-9"} {
			r.Require(fmt.Sprintf("AddWithMode/%s/neg0/%s/*", ref.ModeNames[m], g), fmt.Sprintf("SubWithMode/%s/neg1/%s/*", ref.ModeNames[m], g))
		}
	}
}

func tailAlphabet() []*big.Int {
	var out []*big.Int
	for _, L := range []int{1, 2, 3, 18, 19, 20, 34} {
		for g := int64(0); g <= 9; g++ {
			if L == 1 {
				if g > 0 {
					out = append(out, big.NewInt(g))
				}
				continue
			}
			p := ref.Pow10(L - 1)
			base := new(big.Int).Mul(big.NewInt(g), p)
			rest := []*big.Int{
				big.NewInt(0),
				big.NewInt(1),
				new(big.Int).Sub(new(big.Int).Mul(big.NewInt(5), ref.Pow10(L-2)), big.NewInt(1)),
				new(big.Int).Mul(big.NewInt(5), ref.Pow10(L-2)),
				new(big.Int).Add(new(big.Int).Mul(big.NewInt(5), ref.Pow10(L-2)), big.NewInt(1)),
				new(big.Int).Sub(p, big.NewInt(1)),
			}
			for _, rs := range rest {
				z := new(big.Int).Add(base, rs)
				if z.Sign() > 0 {
					out = append(out, z)
				}
			}
		}
	}
	// every guard digit followed by a single non-zero digit at each later position (and by nothing): the sticky
	// tests of the 2/3/4-digit reduction arms look at different sub-ranges of the dropped digits
	for _, z := range stickyTails(6) {
		out = append(out, z)
	}
	return dedupe(out)
}

// stickyTails returns, for every length t <= maxLen, the dropped-digit patterns g000, g0d0, gd00, g00d ... (g = guard
// digit 0..9, d in {1,5,9} at exactly one later position).
func stickyTails(maxLen int) []*big.Int {
	var out []*big.Int
	for t := 1; t <= maxLen; t++ {
		for g := int64(0); g <= 9; g++ {
			base := new(big.Int).Mul(big.NewInt(g), ref.Pow10(t-1))
			if base.Sign() > 0 {
				out = append(out, base)
			}
			for p := 0; p < t-1; p++ {
				for _, d := range []int64{1, 5, 9} {
					out = append(out, new(big.Int).Add(base, new(big.Int).Mul(big.NewInt(d), ref.Pow10(p))))
				}
			}
		}
	}
	return out
}

func c01Zeros(r *eng.Run, shapes []*big.Int) {
	zexps := []int{ref.MinQ, ref.MinQ + 1, -1, 0, 1, ref.MaxQ - 1, ref.MaxQ}
	r.Par(len(shapes), func(w *eng.W, i int) {
		cl := &rcells{}
		c := shapes[i]
		cs, qs := Cohort(c, 0)
		// zero op x, x op zero, over cohorts of x and zero exponents
		for k := range cs {
			for _, zq := range zexps {
				for s := 0; s < 4; s++ {
					xb := MkBits(s&1 == 1, cs[k], qs[k])
					zb := MkBits(s&2 == 2, new(big.Int), zq)
					for _, op := range []arithOp{opAdd, opSub} {
						for m := 0; m < 6; m++ {
							want, info := specArith(op, ref.Decode(xb), ref.Decode(zb), m)
							checkPicked(w, cl, op, D(xb), D(zb), xb, zb, m, want, info)
							want, info = specArith(op, ref.Decode(zb), ref.Decode(xb), m)
							checkPicked(w, cl, op, D(zb), D(xb), zb, xb, m, want, info)
						}
					}
				}
			}
		}
		// exact cancellation across all cohort pairs
		for k := range cs {
			for l := range cs {
				for s := 0; s < 2; s++ {
					xb := MkBits(s == 1, cs[k], qs[k])
					yb := MkBits(s == 0, cs[l], qs[l])
					yb2 := MkBits(s == 1, cs[l], qs[l])
					for m := 0; m < 6; m++ {
						want, info := specArith(opAdd, ref.Decode(xb), ref.Decode(yb), m)
						checkPicked(w, cl, opAdd, D(xb), D(yb), xb, yb, m, want, info)
						want, info = specArith(opSub, ref.Decode(xb), ref.Decode(yb2), m)
						checkPicked(w, cl, opSub, D(xb), D(yb2), xb, yb2, m, want, info)
					}
				}
			}
		}
		if i == 0 {
			// zero op zero over all exponent pairs of the alphabet and signs
			for _, q1 := range zexps {
				for _, q2 := range zexps {
					for s := 0; s < 4; s++ {
						xb := MkBits(s&1 == 1, new(big.Int), q1)
						yb := MkBits(s&2 == 2, new(big.Int), q2)
						for _, op := range []arithOp{opAdd, opSub} {
							for m := 0; m < 6; m++ {
								want, info := specArith(op, ref.Decode(xb), ref.Decode(yb), m)
								checkPicked(w, cl, op, D(xb), D(yb), xb, yb, m, want, info)
							}
						}
					}
				}
			}
		}
		cl.flush(w)
	})
}

// defaultModeSweep: the mode-less methods must equal the WithMode forms under each DefaultRoundingMode.
func defaultModeSweep(r *eng.Run, ops []arithOp, shapes []*big.Int) {
	saved := dec.DefaultRoundingMode
	defer func() { dec.DefaultRoundingMode = saved }()
	for drm := 0; drm < 6; drm++ {
		dec.DefaultRoundingMode = LibModes[drm]
		r.Par(len(shapes), func(w *eng.W, i int) {
			var n int64
			for _, c2 := range shapes {
				for g := -38; g <= 38; g++ {
					for s := 0; s < 4; s++ {
						xb := MkBits(s&1 == 1, shapes[i], maxi(g, 0))
						yb := MkBits(s&2 == 2, c2, maxi(-g, 0))
						x, y := D(xb), D(yb)
						for _, op := range ops {
							w.Set2(arithNames[op][:3], "", xb, yb)
							got := V(callArithDefault(op, x, y))
							want := V(callArith(op, x, y, drm))
							n++
							if !ref.SameValue(got, want) || got.Class == ref.NaN != (want.Class == ref.NaN) {
								c := arithCase(op, xb, yb, drm, got, want)
								c.Op = strings.TrimSuffix(arithNames[op], "WithMode") + "(default)"
								c.DRM = MName(drm)
								c.Mode = ""
								w.R.Fail(c)
							}
						}
					}
				}
			}
			w.EvalN(n)
			w.CellN("default-mode/"+MName(drm), n, true)
		})
	}
	dec.DefaultRoundingMode = saved
}

func maxi(a, b int) int {
	if a > b {
		return a
	}
	return b
}

// arithVectors binds the model to the repository's vectors: the model must reproduce every expected value.
func arithVectors(r *eng.Run, dir, sep string, op arithOp) {
	vs := ReadVectors(r, dir)
	if len(vs) == 0 {
		r.SelfFail("no vectors found in testdata/%s", dir)
		return
	}
	bad := 0
	for _, v := range vs {
		i := strings.Index(v.LHS, sep)
		if i < 0 {
			continue
		}
		al, ok1 := ref.ParseLit(strings.TrimSpace(v.LHS[:i]))
		bl, ok2 := ref.ParseLit(strings.TrimSpace(v.LHS[i+len(sep):]))
		if !ok1 || !ok2 {
			continue
		}
		if al.Class != ref.Fin || bl.Class != ref.Fin {
			continue
		}
		a, b := ref.RoundLit(al, ref.NearestEven), ref.RoundLit(bl, ref.NearestEven)
		for m := 0; m < 6; m++ {
			el, ok := ref.ParseLit(v.RHS[m])
			if !ok {
				continue
			}
			want := ref.RoundLit(el, ref.NearestEven)
			got, _ := specArith(op, a, b, m)
			r.Traces.Add(1)
			okv := ref.SameValue(got, want)
			if !okv && bad < 5 {
				bad++
				r.SelfFail("model disagrees with repository vector %s:%d %q mode %s: model %s, vector %s", v.File, v.Line, v.LHS, MName(m), got, want)
			}
		}
	}
}

func init() { Checks["C01"] = Check{C01, "exploration"} }
