// verifmc: bounded-exhaustive model checking of woodsbury/decimal128 against a reference model.
package main

import (
	"encoding/json"
	"fmt"
	"os"
	"path/filepath"
	"strconv"

	"verifmc/eng"
	"verifmc/props"
)

func root() string {
	if r := os.Getenv("VERIF_ROOT"); r != "" {
		return r
	}
	return "/verif"
}

func main() {
	if len(os.Args) < 2 {
		fmt.Fprintln(os.Stderr, "usage: verifmc <property> [quick|thorough] | replay <file>")
		os.Exit(2)
	}
	if os.Args[1] == "replay" {
		os.Exit(replay(os.Args[2]))
	}
	id := os.Args[1]
	tier := "quick"
	if len(os.Args) > 2 {
		tier = os.Args[2]
	}
	if t := os.Getenv("VERIF_TIER"); t != "" && len(os.Args) <= 2 {
		tier = t
	}
	ck, ok := props.Checks[id]
	if !ok {
		fmt.Fprintln(os.Stderr, "unknown property", id)
		os.Exit(2)
	}
	seed, _ := strconv.ParseInt(os.Getenv("VERIF_SEED"), 10, 64)
	// remove stale replays for this property
	old, _ := filepath.Glob(filepath.Join(root(), "replays", id+"-*.json"))
	for _, f := range old {
		os.Remove(f)
	}
	r := eng.NewRun(id, tier, ck.Level, root(), seed)
	func() {
		defer func() {
			if e := recover(); e != nil {
				r.SelfFail("harness panic: %v", e)
			}
		}()
		ck.Fn(r)
	}()
	os.Exit(r.Finish())
}

func replay(path string) int {
	b, err := os.ReadFile(path)
	if err != nil {
		fmt.Fprintln(os.Stderr, err)
		return 2
	}
	var c eng.Case
	if err := json.Unmarshal(b, &c); err != nil {
		fmt.Fprintln(os.Stderr, err)
		return 2
	}
	fn, ok := props.Replayers[c.Op]
	if !ok {
		fmt.Fprintln(os.Stderr, "no replayer for op", c.Op)
		return 2
	}
	got, want, err := fn(c)
	if err != nil {
		fmt.Fprintln(os.Stderr, err)
		return 2
	}
	fmt.Printf("replay %s(%v) mode=%s drm=%s\n got  %s\n want %s\n", c.Op, c.Args, c.Mode, c.DRM, got, want)
	if got != want {
		fmt.Printf("VIOLATION property=%s replay=%s\n", c.Prop, path)
		return 1
	}
	fmt.Println("replay: property holds on this case")
	return 0
}
