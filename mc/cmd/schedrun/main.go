// schedrun explores thread interleavings of the instrumented library (built only with the C20 overlay).
package main

import (
	"encoding/json"
	"fmt"
	"math/big"
	"os"
	"sort"
	"strconv"
	"strings"
	"time"

	dec "github.com/woodsbury/decimal128"
	"github.com/woodsbury/decimal128/verifsched"
)

type op struct {
	name string
	f    func() string
}

func bits(d dec.Decimal) string {
	b, _ := d.MarshalBinary()
	return fmt.Sprintf("%x", b)
}

// shared operands (all threads use the same values, slices and big numbers)
var (
	dA, _      = dec.Parse("1234567890.123456789012345678901234")
	dB, _      = dec.Parse("-9.87654321e-30")
	dC, _      = dec.Parse("2.5")
	dD, _      = dec.Parse("1e6000")
	dE, _      = dec.Parse("0.000123")
	sharedText = []byte("12345.678901234567890123456789012345678901e-10")
	sharedBin  = func() []byte { b, _ := dA.MarshalBinary(); return b }()
	sharedCoef = []byte{0x12, 0x34, 0x56, 0x78, 0x9a, 0xbc, 0xde, 0xf0, 0x11}
	sharedInt  = func() *big.Int {
		z, _ := new(big.Int).SetString("123456789012345678901234567890123456789012345", 10)
		return z
	}()
	sharedRat = big.NewRat(1, 3)
	sharedFlt = big.NewFloat(1.0 / 3)
	sharedBuf = make([]byte, 0, 64)
)

func menu() []op {
	return []op{
		{"String", func() string { return dA.String() + " " + dB.String() + " " + dD.String() }},
		{"Format", func() string {
			return dec.Format(dA, 'e', 10) + " " + dec.Format(dE, 'f', 3) + " " + dec.Format(dB, 'g', -1)
		}},
		{"Append", func() string {
			return string(dec.Append(make([]byte, 0, 8), dA, 'g', 20)) + string(dB.Append(nil, "+012.4e")) + string(dec.Append(sharedBuf[:0:0], dC, 'f', 2))
		}},
		{"Sprintf", func() string {
			return fmt.Sprintf("%v|%12.3f|%-10.2e|%+g|%v|%v", dA, dE, dB, dC, dec.NaN(), dec.Inf(-1))
		}},
		{"MarshalText/JSON", func() string {
			t, _ := dA.MarshalText()
			j, _ := dB.MarshalJSON()
			return string(t) + " " + string(j)
		}},
		{"Parse", func() string {
			x, e1 := dec.Parse("3.14159265358979323846264338327950288419716939937510")
			y, e2 := dec.Parse("1e-6190")
			var z dec.Decimal
			e3 := z.UnmarshalText(sharedText)
			return fmt.Sprint(bits(x), e1, bits(y), e2, bits(z), e3)
		}},
		{"Scan", func() string {
			var x dec.Decimal
			n, err := fmt.Sscan("  -12.5e3 rest", &x)
			return fmt.Sprint(bits(x), n, err)
		}},
		{"Binary/Compose", func() string {
			var x, y dec.Decimal
			e1 := x.UnmarshalBinary(sharedBin)
			e2 := y.Compose(0, true, sharedCoef, -7)
			f, n, c, e := dA.Decompose(make([]byte, 0, 16))
			return fmt.Sprint(bits(x), e1, bits(y), e2, f, n, c, e)
		}},
		{"Arith", func() string {
			return bits(dA.Add(dB)) + bits(dA.Mul(dC)) + bits(dA.Quo(dC)) + bits(dA.Sub(dE)) + bits(dA.AddWithMode(dB, dec.ToPositiveInf))
		}},
		{"QuoRem/Cmp", func() string {
			q, r := dA.QuoRem(dC)
			return bits(q) + bits(r) + fmt.Sprint(dA.Cmp(dB), dA.Equal(dA), dec.Compare(dB, dC), bits(dec.Min(dA, dB)))
		}},
		{"Pow", func() string { return bits(dC.Pow(dE)) + bits(dA.Pow(dC)) }},
		{"Log", func() string {
			return bits(dec.Log(dA)) + bits(dec.Log10(dE)) + bits(dec.Log2(dC)) + bits(dec.Log1p(dE))
		}},
		{"Exp", func() string {
			return bits(dec.Exp(dC)) + bits(dec.Exp2(dC)) + bits(dec.Exp10(dC)) + bits(dec.Expm1(dE))
		}},
		{"Sqrt/Cbrt", func() string { return bits(dec.Sqrt(dA)) + bits(dec.Cbrt(dB)) }},
		{"Constants", func() string { return bits(dec.E()) + bits(dec.Pi()) + bits(dec.Phi()) }},
		{"New/Ldexp/Frexp", func() string {
			f, e := dec.Frexp(dA)
			return bits(dec.New(-123456789, -6190)) + bits(dec.Ldexp(dA, -6180)) + bits(f) + fmt.Sprint(e)
		}},
		{"Round", func() string {
			return bits(dA.Round(3, dec.ToNearestEven)) + bits(dA.Ceil(-2)) + bits(dB.Floor(40)) + bits(dec.Trunc(dA)) + bits(dA.Canonical())
		}},
		{"FromBig", func() string {
			return bits(dec.FromInt(sharedInt)) + bits(dec.FromRat(sharedRat)) + bits(dec.FromFloat(sharedFlt)) + bits(dec.FromFloat64(0.1)) + bits(dec.FromInt64(-5))
		}},
		{"ToBig", func() string {
			i64, ok := dA.Int64()
			return dA.Int(nil).String() + dE.Rat(nil).String() + dA.Float(nil).Text('g', 30) + fmt.Sprint(i64, ok, dA.Float64(), dE.Float32())
		}},
		// the same entry points on other argument shapes (each takes a different path through the library)
		{"ToBig/variants", func() string {
			u64, ok := dC.Uint64()
			i32, ok2 := dB.Int32()
			return dA.Float(new(big.Float).SetPrec(24)).Text('p', 0) + dB.Float(new(big.Float).SetPrec(53)).Text('p', 0) + dD.Float(new(big.Float).SetPrec(200)).Text('g', 20) +
				dB.Int(big.NewInt(77)).String() + dD.Int(nil).String()[:10] + dB.Rat(big.NewRat(5, 7)).String()[:20] + fmt.Sprint(u64, ok, i32, ok2, dD.Float64(), dB.Float64())
		}},
		{"Format/variants", func() string {
			return dec.Format(dA, 'g', 5) + dec.Format(dA, 'G', 40) + dec.Format(dB, 'E', 0) + dec.Format(dD, 'f', 2)[:30] + string(dE.Append(nil, "#10.3g")) + string(dA.Append(nil, "-20.5f")) + fmt.Sprintf("%08.2f|%+.0e|% g", dC, dB, dE)
		}},
		{"Parse/variants", func() string {
			a, e1 := dec.Parse("-0.00000000000000000000000000000000000000012345678901234567890123456789012345678901234567890e-20")
			b, e2 := dec.Parse("9999999999999999999999999999999999999999999999999999999999e6100")
			c, e3 := dec.Parse("1_000_000.5e+3")
			var d dec.Decimal
			e4 := d.UnmarshalJSON([]byte("12345678901234567890123456789012345678901234567890.5e-7"))
			var n, i dec.Decimal
			fmt.Sscan("NaN -Inf", &n, &i)
			return fmt.Sprint(bits(a), e1, bits(b), e2, bits(c), e3, bits(d), e4, bits(n), bits(i))
		}},
		{"Arith/variants", func() string {
			q, r := dD.QuoRem(dE)
			return bits(dD.Add(dB)) + bits(dD.Mul(dD)) + bits(dB.Quo(dD)) + bits(dA.SubWithMode(dA, dec.ToNegativeInf)) + bits(q) + bits(r) + bits(dA.MulWithMode(dB, dec.AwayFromZero)) + fmt.Sprint(dA.Cmp(dD), dB.CmpAbs(dE), dA.Equal(dC))
		}},
		{"Elementary/variants", func() string {
			ten := dec.New(10, 0)
			near1, _ := dec.Parse("0.99999999999999999999999999")
			return bits(ten.Pow(dec.New(6112, 0))) + bits(dec.New(100, 0).Pow(dec.New(5, -1))) + bits(dec.New(-2, 0).Pow(dec.New(3, 0))) + bits(dec.Exp10(dec.New(6144, 0))) + bits(dec.Exp2(dec.New(-20000, 0))) +
				bits(dec.Log(near1)) + bits(dec.Log1p(dB)) + bits(dec.Expm1(dB)) + bits(dec.Sqrt(dD)) + bits(dec.Cbrt(dD)) + bits(dec.Exp(dec.New(14000, 0)))
		}},
		{"Compose/From/variants", func() string {
			var x, y dec.Decimal
			big32 := append([]byte{1}, make([]byte, 20)...)
			big64 := append([]byte{1}, make([]byte, 40)...)
			e1 := x.Compose(0, false, big32, -10)
			e2 := y.Compose(0, true, big64, -60)
			huge := new(big.Int).Lsh(big.NewInt(12345), 300)
			return fmt.Sprint(bits(x), e1, bits(y), e2) + bits(dec.FromInt(huge)) + bits(dec.FromFloat64(1e300)) + bits(dec.FromFloat64(5e-324)) + bits(dec.FromFloat32(1.5e-40)) +
				bits(dec.FromRat(new(big.Rat).SetFrac(big.NewInt(1), new(big.Int).Exp(big.NewInt(10), big.NewInt(6170), nil)))) + bits(dec.Ldexp(dB, 6000)) + bits(dD.Round(-5990, dec.ToNearestAway)) + bits(dB.Ceil(3)) + bits(dB.Floor(-6200))
		}},
	}
}

type scenarioResult struct {
	Name      string   `json:"name"`
	Threads   int      `json:"threads"`
	Schedules int      `json:"schedules"`
	MaxPoints int      `json:"max_points_per_execution"`
	Outcomes  int      `json:"distinct_outcomes"`
	BoundDone int      `json:"preemption_bound_completed"`
	Capped    bool     `json:"capped"`
	Sites     int      `json:"sites_touched"`
	Violation string   `json:"violation,omitempty"`
	Schedule  []int    `json:"schedule,omitempty"`
	Got       []string `json:"got,omitempty"`
	Want      []string `json:"want,omitempty"`
}

type output struct {
	Scenarios     []scenarioResult `json:"scenarios"`
	TotalSched    int              `json:"total_schedules"`
	SnapshotCalls int              `json:"snapshot_checks"`
	SnapshotBad   []string         `json:"snapshot_violations"`
	LazyInit      []string         `json:"one_time_initialisations"`
	ReplayChecked int              `json:"replays_checked_deterministic"`
	Errors        []string         `json:"errors"`
	Wall          float64          `json:"wall_s"`
}

func flatten(obs [][]string) []string {
	var out []string
	for i, t := range obs {
		for j, o := range t {
			out = append(out, fmt.Sprintf("T%d.%d=%s", i, j, o))
		}
	}
	return out
}

func main() {
	bound, _ := strconv.Atoi(os.Getenv("SCHED_BOUND"))
	maxSched, _ := strconv.Atoi(os.Getenv("SCHED_MAX"))
	if maxSched == 0 {
		maxSched = 20000
	}
	nthreads, _ := strconv.Atoi(os.Getenv("SCHED_THREADS"))
	if nthreads == 0 {
		nthreads = 2
	}
	only := os.Getenv("SCHED_ONLY")
	t0 := time.Now()
	m := menu()
	var out output
	// purity: package-level state is unchanged by every operation, and every operation is repeatable.
	// A one-time initialisation (a table built on first use under sync.Once, a cache published once) is not a
	// modification any caller can observe: the first pass lets package-level state settle and only counts
	// the operations that changed it; from the second pass on every change is a violation (scratch buffers,
	// memo entries and counters keep changing, an initialisation does not).
	snap0 := dec.VerifSnapshot()
	base := map[string]string{}
	for _, o := range m {
		base[o.name] = o.f()
		if s := dec.VerifSnapshot(); s != snap0 {
			out.LazyInit = append(out.LazyInit, o.name)
			snap0 = s
		}
	}
	for _, o := range m {
		r2 := o.f()
		out.SnapshotCalls++
		if s := dec.VerifSnapshot(); s != snap0 {
			out.SnapshotBad = append(out.SnapshotBad, o.name+": package-level state changed")
			snap0 = s
		}
		if r2 != base[o.name] {
			out.SnapshotBad = append(out.SnapshotBad, o.name+": second call gave a different result")
		}
	}
	// after everything ran once, results must still be what they were (no hidden state carried over)
	for _, o := range m {
		if r := o.f(); r != base[o.name] {
			out.SnapshotBad = append(out.SnapshotBad, o.name+": result depends on the history of previous calls")
		}
	}
	// scenarios: every unordered pair of menu entries, thread A = [i, j], thread B = [j, i] (+ thread C = [i] when 3 threads)
	shardI, shardN := 0, 1
	if sh := os.Getenv("SCHED_SHARD"); sh != "" {
		fmt.Sscanf(sh, "%d/%d", &shardI, &shardN)
	}
	nviol, idx := 0, -1
	for i := range m {
		for j := i; j < len(m); j++ {
			idx++
			if idx%shardN != shardI || nviol >= 3 {
				continue
			}
			name := m[i].name + " || " + m[j].name
			if only != "" && !strings.Contains(name, only) {
				continue
			}
			ops := [][]func() string{{m[i].f, m[j].f}, {m[j].f, m[i].f}}
			if nthreads >= 3 {
				ops = append(ops, []func() string{m[i].f})
			}
			want := [][]string{{base[m[i].name], base[m[j].name]}, {base[m[j].name], base[m[i].name]}}
			if nthreads >= 3 {
				want = append(want, []string{base[m[i].name]})
			}
			if rp := os.Getenv("SCHED_REPLAY"); rp != "" {
				if name != only {
					continue
				}
				var prefix []int
				json.Unmarshal([]byte(rp), &prefix)
				res, err := verifsched.Run(ops, prefix, 200000)
				got, wantS := strings.Join(flatten(res.Obs), ";"), strings.Join(flatten(want), ";")
				fmt.Printf("replay scenario %q schedule %v\n got  %s\n want %s\n", name, prefix, got, wantS)
				if err != nil {
					fmt.Println("REPLAY-DIVERGED:", err)
					os.Exit(2)
				}
				if got != wantS || res.Panic != "" || dec.VerifSnapshot() != snap0 {
					fmt.Println("REPLAY: interleaved execution differs from the sequential results")
					os.Exit(1)
				}
				fmt.Println("REPLAY: property holds under this schedule")
				os.Exit(0)
			}
			sr := scenarioResult{Name: name, Threads: len(ops)}
			outcomes := map[string]bool{}
			sites := map[int]bool{}
			wantS := strings.Join(flatten(want), ";")
			var explore func(prefix []int, b int) bool
			explore = func(prefix []int, b int) bool {
				if sr.Schedules >= maxSched {
					sr.Capped = true
					return true
				}
				res, err := verifsched.Run(ops, prefix, 200000)
				if err != nil {
					out.Errors = append(out.Errors, name+": "+err.Error())
					return false
				}
				sr.Schedules++
				if len(res.Points) > sr.MaxPoints {
					sr.MaxPoints = len(res.Points)
				}
				for _, p := range res.Points {
					if p.Site >= 0 {
						sites[p.Site] = true
					}
				}
				gotS := strings.Join(flatten(res.Obs), ";")
				outcomes[gotS] = true
				if res.Horizon {
					sr.Violation = "horizon exceeded (livelock?)"
				} else if gotS != wantS || res.Panic != "" {
					sr.Violation = "interleaved execution differs from the sequential results " + res.Panic
				}
				if sr.Violation == "" && dec.VerifSnapshot() != snap0 {
					sr.Violation = "package-level state changed"
				}
				if sr.Violation != "" {
					sr.Schedule = res.Choices
					sr.Got = flatten(res.Obs)
					sr.Want = flatten(want)
					// the failure must reproduce under the same schedule
					r2, err2 := verifsched.Run(ops, res.Choices, 200000)
					out.ReplayChecked++
					if err2 != nil || strings.Join(flatten(r2.Obs), ";") != gotS {
						out.Errors = append(out.Errors, name+": violation did not reproduce under the recorded schedule")
					}
					return false
				}
				pre := 0
				for k := 0; k < len(res.Points); k++ {
					p := res.Points[k]
					isPre := func(c int) bool { return c != 0 && p.Running >= 0 && len(p.Enabled) > 0 && p.Enabled[0] == p.Running }
					if k >= len(prefix) {
						for alt := 1; alt < len(p.Enabled); alt++ {
							cost := pre
							if isPre(alt) {
								cost++
							}
							if cost > b {
								continue
							}
							np := append(append([]int{}, res.Choices[:k]...), alt)
							if !explore(np, b) {
								return false
							}
						}
					}
					if isPre(res.Choices[k]) {
						pre++
					}
				}
				return true
			}
			ok := true
			// iterate the bound: with a fresh DFS per bound the cheapest counterexample comes first
			for b := 0; b <= bound && ok; b++ {
				sr.Schedules = 0
				outcomes = map[string]bool{}
				ok = explore(nil, b)
				if ok && !sr.Capped {
					sr.BoundDone = b
				}
			}
			// determinism of the explorer itself: replay the default schedule twice
			if ok {
				r1, _ := verifsched.Run(ops, nil, 200000)
				r2, _ := verifsched.Run(ops, r1.Choices, 200000)
				out.ReplayChecked++
				if strings.Join(flatten(r1.Obs), ";") != strings.Join(flatten(r2.Obs), ";") || len(r1.Points) != len(r2.Points) {
					out.Errors = append(out.Errors, name+": replaying a recorded schedule gave different observations")
				}
			}
			if sr.Violation != "" {
				nviol++
			}
			sr.Outcomes = len(outcomes)
			sr.Sites = len(sites)
			out.TotalSched += sr.Schedules
			out.Scenarios = append(out.Scenarios, sr)
		}
	}
	sort.Slice(out.Scenarios, func(a, b int) bool { return out.Scenarios[a].Name < out.Scenarios[b].Name })
	out.Wall = time.Since(t0).Seconds()
	b, _ := json.MarshalIndent(out, "", " ")
	if p := os.Getenv("SCHED_OUT"); p != "" {
		os.WriteFile(p, b, 0o644)
	} else {
		os.Stdout.Write(b)
	}
}
