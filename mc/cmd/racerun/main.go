// racerun: free-running goroutines hammer the same operations on shared operands; built with -race.
// It samples schedules and is supplementary: it discharges the assumption that scheduling points at
// package-variable accesses are sufficient (a cooperative scheduler's hand-offs hide races from the detector).
package main

import (
	"fmt"
	"math/big"
	"os"
	"strconv"
	"sync"

	dec "github.com/woodsbury/decimal128"
)

func main() {
	iters, _ := strconv.Atoi(os.Getenv("RACE_ITERS"))
	if iters == 0 {
		iters = 300
	}
	dA, _ := dec.Parse("1234567890.123456789012345678901234")
	dB, _ := dec.Parse("-9.87654321e-30")
	dC, _ := dec.Parse("2.5")
	dE, _ := dec.Parse("0.000123")
	text := []byte("12345.678901234567890123456789012345678901e-10")
	bin, _ := dA.MarshalBinary()
	coef := []byte{0x12, 0x34, 0x56, 0x78, 0x9a, 0xbc, 0xde, 0xf0, 0x11}
	bi, _ := new(big.Int).SetString("123456789012345678901234567890123456789012345", 10)
	rat := big.NewRat(1, 3)
	flt := big.NewFloat(1.0 / 3)
	ops := []func() string{
		func() string { return dA.String() + dB.String() },
		func() string {
			return dec.Format(dA, 'e', 10) + string(dB.Append(nil, "+012.4e")) + fmt.Sprintf("%v|%12.3f|%v", dA, dE, dec.NaN())
		},
		func() string { t, _ := dA.MarshalText(); j, _ := dB.MarshalJSON(); return string(t) + string(j) },
		func() string {
			x, _ := dec.Parse("3.14159265358979323846264338327950288419716939937510")
			var z dec.Decimal
			z.UnmarshalText(text)
			var s dec.Decimal
			fmt.Sscan("-12.5e3", &s)
			return x.String() + z.String() + s.String()
		},
		func() string {
			var x, y dec.Decimal
			x.UnmarshalBinary(bin)
			y.Compose(0, true, coef, -7)
			_, _, c, _ := dA.Decompose(nil)
			return x.String() + y.String() + fmt.Sprint(c)
		},
		func() string {
			q, r := dA.QuoRem(dC)
			return dA.Add(dB).String() + dA.Mul(dC).String() + dA.Quo(dC).String() + q.String() + r.String()
		},
		func() string {
			return dC.Pow(dE).String() + dec.Log(dA).String() + dec.Log10(dE).String() + dec.Log2(dC).String() + dec.Log1p(dE).String()
		},
		func() string {
			return dec.Exp(dC).String() + dec.Exp2(dC).String() + dec.Exp10(dC).String() + dec.Expm1(dE).String() + dec.Sqrt(dA).String() + dec.Cbrt(dB).String()
		},
		func() string {
			return dec.E().String() + dec.Pi().String() + dec.Phi().String() + dec.New(-123456789, -6190).String() + dec.Ldexp(dA, -6180).String()
		},
		func() string {
			return dA.Round(3, dec.ToNearestEven).String() + dA.Ceil(-2).String() + dA.Canonical().String() + fmt.Sprint(dA.Cmp(dB), dec.Min(dA, dB))
		},
		func() string {
			return dec.FromInt(bi).String() + dec.FromRat(rat).String() + dec.FromFloat(flt).String() + dec.FromFloat64(0.1).String()
		},
		func() string {
			return dA.Int(nil).String() + dE.Rat(nil).String() + dA.Float(nil).Text('g', 30) + fmt.Sprint(dA.Float64())
		},
	}
	want := make([]string, len(ops))
	for i, o := range ops {
		want[i] = o()
	}
	var wg sync.WaitGroup
	var mu sync.Mutex
	bad := 0
	for g := 0; g < 8; g++ {
		wg.Add(1)
		go func(g int) {
			defer wg.Done()
			for it := 0; it < iters; it++ {
				for k := range ops {
					i := (k + g) % len(ops)
					if got := ops[i](); got != want[i] {
						mu.Lock()
						if bad < 5 {
							fmt.Printf("MISMATCH op %d: got %q want %q\n", i, got, want[i])
						}
						bad++
						mu.Unlock()
					}
				}
			}
		}(g)
	}
	wg.Wait()
	fmt.Printf("racerun: goroutines=8 iterations=%d ops=%d mismatches=%d\n", iters, len(ops), bad)
	if bad > 0 {
		os.Exit(1)
	}
}
