// Command mutgen is a dev-time tool (not part of any registered check): it enumerates first-order
// syntactic changes of the library's non-test sources (operator swaps, off-by-one constants, dropped
// statements) and writes an evenly strided selection of them as single-file replacements. The sweep
// driver (mutsweep.sh) then asks, for every change the repository's own suite accepts, whether some
// quick check reports it. This measures the machinery; it decides no property.
//
// usage: mutgen -repo DIR -out DIR -n N [-files a.go,b.go] [-offset K]
package main

import (
	"flag"
	"fmt"
	"go/ast"
	"go/parser"
	"go/token"
	"os"
	"path/filepath"
	"sort"
	"strconv"
	"strings"
)

type site struct {
	file       string
	start, end int // byte offsets in the file
	repl       string
	desc       string
	fn         string
	line       int
}

var swaps = map[token.Token][]string{
	token.ADD: {"-"}, token.SUB: {"+"},
	token.LSS: {"<="}, token.LEQ: {"<"}, token.GTR: {">="}, token.GEQ: {">"},
	token.EQL: {"!="}, token.NEQ: {"=="},
	token.LAND: {"||"}, token.LOR: {"&&"},
	token.AND: {"|"}, token.OR: {"&"}, token.XOR: {"|"},
	token.SHL: {">>"}, token.SHR: {"<<"},
	token.REM: {"/"}, token.QUO: {"%"}, token.MUL: {"+"},
}

var asgSwaps = map[token.Token]string{
	token.ADD_ASSIGN: "-=", token.SUB_ASSIGN: "+=", token.OR_ASSIGN: "&=", token.AND_ASSIGN: "|=",
	token.SHL_ASSIGN: ">>=", token.SHR_ASSIGN: "<<=", token.MUL_ASSIGN: "+=",
}

func main() {
	repo := flag.String("repo", "/repo", "")
	out := flag.String("out", "", "")
	n := flag.Int("n", 500, "")
	filesFlag := flag.String("files", "", "")
	offset := flag.Int("offset", 0, "")
	flag.Parse()
	ents, _ := os.ReadDir(*repo)
	var files []string
	for _, e := range ents {
		nm := e.Name()
		if !strings.HasSuffix(nm, ".go") || strings.HasSuffix(nm, "_test.go") {
			continue
		}
		if *filesFlag != "" && !strings.Contains(","+*filesFlag+",", ","+nm+",") {
			continue
		}
		files = append(files, nm)
	}
	sort.Strings(files)
	var sites []site
	for _, f := range files {
		sites = append(sites, scan(filepath.Join(*repo, f), f)...)
	}
	fmt.Fprintf(os.Stderr, "sites=%d\n", len(sites))
	if *out == "" {
		byFn := map[string]int{}
		for _, s := range sites {
			byFn[s.file]++
		}
		for k, v := range byFn {
			fmt.Println(k, v)
		}
		return
	}
	stride := float64(len(sites)) / float64(*n)
	if stride < 1 {
		stride = 1
	}
	os.MkdirAll(*out, 0o755)
	k := 0
	seen := map[int]bool{}
	for x := float64(*offset); int(x) < len(sites); x += stride {
		i := int(x)
		if seen[i] {
			continue
		}
		seen[i] = true
		s := sites[i]
		src, _ := os.ReadFile(filepath.Join(*repo, s.file))
		mut := string(src[:s.start]) + s.repl + string(src[s.end:])
		dir := filepath.Join(*out, fmt.Sprintf("m%04d", i))
		os.MkdirAll(dir, 0o755)
		os.WriteFile(filepath.Join(dir, s.file), []byte(mut), 0o644)
		os.WriteFile(filepath.Join(dir, "desc.txt"), []byte(fmt.Sprintf("%s:%d\t%s\t%s\n", s.file, s.line, s.fn, s.desc)), 0o644)
		k++
	}
	fmt.Fprintf(os.Stderr, "written=%d\n", k)
}

func scan(path, name string) []site {
	fset := token.NewFileSet()
	src, err := os.ReadFile(path)
	if err != nil {
		panic(err)
	}
	f, err := parser.ParseFile(fset, path, src, 0)
	if err != nil {
		panic(err)
	}
	off := func(p token.Pos) int { return fset.Position(p).Offset }
	var out []site
	for _, d := range f.Decls {
		fd, ok := d.(*ast.FuncDecl)
		if !ok || fd.Body == nil {
			continue
		}
		fn := fd.Name.Name
		if fd.Recv != nil && len(fd.Recv.List) > 0 {
			t := fd.Recv.List[0].Type
			if st, ok := t.(*ast.StarExpr); ok {
				t = st.X
			}
			if id, ok := t.(*ast.Ident); ok {
				fn = id.Name + "." + fn
			}
		}
		if fn == "uint128.String" || fn == "uint192.String" || fn == "uint256.String" || fn == "uint384.String" || fn == "decomposed192.String" {
			continue
		}
		add := func(start, end int, repl, desc string, pos token.Pos) {
			out = append(out, site{file: name, start: start, end: end, repl: repl, desc: desc, fn: fn, line: fset.Position(pos).Line})
		}
		ast.Inspect(fd.Body, func(n ast.Node) bool {
			switch x := n.(type) {
			case *ast.BinaryExpr:
				for _, r := range swaps[x.Op] {
					// string concatenation etc. simply fail to build and are discarded later
					s := off(x.OpPos)
					add(s, s+len(x.Op.String()), r, fmt.Sprintf("%s -> %s", x.Op, r), x.OpPos)
				}
			case *ast.BasicLit:
				if x.Kind == token.INT {
					v, err := strconv.ParseInt(strings.ReplaceAll(x.Value, "_", ""), 0, 64)
					if err == nil {
						s, e := off(x.Pos()), off(x.End())
						add(s, e, strconv.FormatInt(v+1, 10), fmt.Sprintf("%s -> %d", x.Value, v+1), x.Pos())
						if v > 0 {
							add(s, e, strconv.FormatInt(v-1, 10), fmt.Sprintf("%s -> %d", x.Value, v-1), x.Pos())
						}
					}
				}
			case *ast.IncDecStmt:
				s := off(x.TokPos)
				r := "--"
				if x.Tok == token.DEC {
					r = "++"
				}
				add(s, s+2, r, fmt.Sprintf("%s -> %s", x.Tok, r), x.TokPos)
			case *ast.AssignStmt:
				if r, ok := asgSwaps[x.Tok]; ok {
					s := off(x.TokPos)
					add(s, s+len(x.Tok.String()), r, fmt.Sprintf("%s -> %s", x.Tok, r), x.TokPos)
				}
				if x.Tok != token.DEFINE {
					// drop the statement (keep operands "used")
					s, e := off(x.Pos()), off(x.End())
					add(s, e, "{}", "drop: "+oneLine(string(src[s:e])), x.Pos())
				}
			case *ast.ExprStmt:
				s, e := off(x.Pos()), off(x.End())
				add(s, e, "{}", "drop: "+oneLine(string(src[s:e])), x.Pos())
			case *ast.UnaryExpr:
				if x.Op == token.NOT {
					s := off(x.OpPos)
					add(s, s+1, "", "drop !", x.OpPos)
				}
			case *ast.BranchStmt:
				if x.Tok == token.BREAK && x.Label == nil {
					s, e := off(x.Pos()), off(x.End())
					add(s, e, "continue", "break -> continue", x.Pos())
				}
			}
			return true
		})
	}
	return out
}

func oneLine(s string) string {
	s = strings.Join(strings.Fields(s), " ")
	if len(s) > 70 {
		s = s[:70] + "…"
	}
	return s
}
