// Package hp is a small high-precision evaluator for exp/log on math/big.Float, used as the oracle for
// the elementary functions. Every quantity is evaluated at two working precisions; callers use the
// pair to form an enclosure and only issue verdicts that hold across it.
package hp

import (
	"math/big"
	"sync"
)

type Ctx struct {
	Prec uint
	ln2  *big.Float
	ln10 *big.Float
	once sync.Once
}

var (
	ctxMu sync.Mutex
	ctxs  = map[uint]*Ctx{}
)

func Get(prec uint) *Ctx {
	ctxMu.Lock()
	defer ctxMu.Unlock()
	c, ok := ctxs[prec]
	if !ok {
		c = &Ctx{Prec: prec}
		ctxs[prec] = c
	}
	return c
}

func (c *Ctx) init() {
	c.once.Do(func() {
		// ln 2 = 2 atanh(1/3); ln 10 = 3 ln 2 + ln(10/8) = 3 ln 2 + 2 atanh(1/9)
		third := c.quo(c.i(1), c.i(3))
		c.ln2 = c.mul(c.i(2), c.atanh(third))
		ninth := c.quo(c.i(1), c.i(9))
		c.ln10 = c.add(c.mul(c.i(3), c.ln2), c.mul(c.i(2), c.atanh(ninth)))
	})
}

func (c *Ctx) f() *big.Float                  { return new(big.Float).SetPrec(c.Prec + 64) }
func (c *Ctx) i(v int64) *big.Float           { return c.f().SetInt64(v) }
func (c *Ctx) add(a, b *big.Float) *big.Float { return c.f().Add(a, b) }
func (c *Ctx) sub(a, b *big.Float) *big.Float { return c.f().Sub(a, b) }
func (c *Ctx) mul(a, b *big.Float) *big.Float { return c.f().Mul(a, b) }
func (c *Ctx) quo(a, b *big.Float) *big.Float { return c.f().Quo(a, b) }

func (c *Ctx) Ln2() *big.Float  { c.init(); return c.ln2 }
func (c *Ctx) Ln10() *big.Float { c.init(); return c.ln10 }

// FromDec returns coef * 10^q (coef >= 0) rounded to the working precision.
func (c *Ctx) FromDec(neg bool, coef *big.Int, q int) *big.Float {
	x := c.f().SetInt(coef)
	if q != 0 {
		p := c.f().SetInt(pow10(absI(q)))
		if q > 0 {
			x.Mul(x, p)
		} else {
			x.Quo(x, p)
		}
	}
	if neg {
		x.Neg(x)
	}
	return x
}

var (
	p10mu sync.Mutex
	p10   = map[int]*big.Int{}
)

func pow10(n int) *big.Int {
	p10mu.Lock()
	defer p10mu.Unlock()
	if v, ok := p10[n]; ok {
		return v
	}
	v := new(big.Int).Exp(big.NewInt(10), big.NewInt(int64(n)), nil)
	p10[n] = v
	return v
}

func absI(a int) int {
	if a < 0 {
		return -a
	}
	return a
}

// atanh(z) for |z| <= 1/2 by its Taylor series.
func (c *Ctx) atanh(z *big.Float) *big.Float {
	z2 := c.mul(z, z)
	term := c.f().Set(z)
	sum := c.f().Set(z)
	if z.Sign() == 0 {
		return sum
	}
	limit := sum.MantExp(nil) - int(c.Prec) - 80
	for n := int64(3); ; n += 2 {
		term = c.mul(term, z2)
		t := c.quo(term, c.i(n))
		if t.Sign() == 0 || t.MantExp(nil) < limit {
			break
		}
		sum.Add(sum, t)
	}
	return sum
}

// Ln(x) for x > 0.
func (c *Ctx) Ln(x *big.Float) *big.Float {
	c.init()
	m := new(big.Float)
	k := x.MantExp(m) // x = m * 2^k, m in [0.5,1)
	mm := c.f().Set(m)
	// bring m into [0.75, 1.5)
	if mm.Cmp(big.NewFloat(0.75)) < 0 {
		mm.Mul(mm, c.i(2))
		k--
	}
	z := c.quo(c.sub(mm, c.i(1)), c.add(mm, c.i(1)))
	r := c.mul(c.i(2), c.atanh(z))
	if k != 0 {
		r = c.add(r, c.mul(c.i(int64(k)), c.ln2))
	}
	return r
}

// LnDec returns ln(coef*10^q) = ln(coef) + q ln 10 evaluated without forming the huge or tiny value.
func (c *Ctx) LnDec(coef *big.Int, q int) *big.Float {
	c.init()
	r := c.Ln(c.f().SetInt(coef))
	if q != 0 {
		r = c.add(r, c.mul(c.i(int64(q)), c.ln10))
	}
	return r
}

// Log1p(x) = ln(1+x) for x > -1, accurate for tiny x: 2 atanh(x/(2+x)).
func (c *Ctx) Log1p(x *big.Float) *big.Float {
	c.init()
	ax := c.f().Abs(x)
	if ax.Cmp(big.NewFloat(0.25)) > 0 {
		return c.Ln(c.add(c.i(1), x))
	}
	z := c.quo(x, c.add(c.i(2), x))
	return c.mul(c.i(2), c.atanh(z))
}

// Exp(x) for |x| < 2^40 or so.
func (c *Ctx) Exp(x *big.Float) *big.Float {
	c.init()
	if x.Sign() == 0 {
		return c.i(1)
	}
	// k = round(x / ln2)
	kq := c.quo(x, c.ln2)
	kf, _ := kq.Float64()
	var k int64
	if kf >= 0 {
		k = int64(kf + 0.5)
	} else {
		k = int64(kf - 0.5)
	}
	r := c.sub(x, c.mul(c.i(k), c.ln2))
	// r/2^8, Taylor, square 8 times
	const S = 8
	r.SetMantExp(r, -S)
	e := c.expm1Series(r)
	// (1+e)^(2^S) - 1 computed stably: e <- 2e + e^2
	for i := 0; i < S; i++ {
		e = c.add(c.mul(c.i(2), e), c.mul(e, e))
	}
	res := c.add(c.i(1), e)
	return res.SetMantExp(res, int(k))
}

// expm1Series: e^r - 1 for small |r|.
func (c *Ctx) expm1Series(r *big.Float) *big.Float {
	sum := c.f().Set(r)
	if r.Sign() == 0 {
		return sum
	}
	term := c.f().Set(r)
	limit := r.MantExp(nil) - int(c.Prec) - 80
	for n := int64(2); ; n++ {
		term = c.quo(c.mul(term, r), c.i(n))
		if term.Sign() == 0 || term.MantExp(nil) < limit {
			break
		}
		sum.Add(sum, term)
	}
	return sum
}

// Expm1(x) = e^x - 1, accurate for tiny x.
func (c *Ctx) Expm1(x *big.Float) *big.Float {
	c.init()
	ax := c.f().Abs(x)
	if ax.Cmp(big.NewFloat(0.5)) < 0 {
		// reduce: r = x/2^S, e = expm1(r), then e <- 2e+e^2
		const S = 6
		r := c.f().Set(x)
		r.SetMantExp(r, -S)
		e := c.expm1Series(r)
		for i := 0; i < S; i++ {
			e = c.add(c.mul(c.i(2), e), c.mul(e, e))
		}
		return e
	}
	return c.sub(c.Exp(x), c.i(1))
}
