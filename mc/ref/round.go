package ref

import "math/big"

// Mode numbering is the model's own; the harness maps it to the library's named constants.
type Mode int

const (
	NearestEven Mode = iota
	NearestAway
	ToZero
	AwayFromZero
	ToNegInf
	ToPosInf
)

var ModeNames = []string{"ToNearestEven", "ToNearestAway", "ToZero", "AwayFromZero", "ToNegativeInf", "ToPositiveInf"}

// RInfo describes the rounding decision, for cell classification.
type RInfo struct {
	Guard   int  // first dropped digit (0..9)
	Sticky  bool // something non-zero after the guard digit
	Exact   bool
	OddKept bool
	Event   string // "", "carry", "seam", "subnormal", "tiny0", "overflow", "zero"
}

var (
	bigOne = big.NewInt(1)
	bigTwo = big.NewInt(2)
	bigTen = big.NewInt(10)
)

// Round returns the member of the format that mode selects for the exact value
// (-1)^neg * (num/den) * 10^e10 (num>=0, den>0), with the tiny rule (exact magnitude
// below 1e-6177 -> signed zero in every mode) and the overflow rule (round with unbounded
// exponent, Inf iff above Cmax*10^6111).
func Round(neg bool, num, den *big.Int, e10 int, mode Mode) (Val, RInfo) {
	return roundAt(neg, num, den, e10, mode, MinQ, true)
}

// roundAt: minq is the smallest permitted exponent (the quantum for quantising operations);
// if free is true the exponent rises as needed to fit Cmax (floating), and the tiny rule uses minq.
func roundAt(neg bool, num, den *big.Int, e10 int, mode Mode, minq int, free bool) (Val, RInfo) {
	p := prep(neg, num, den, e10, minq, free)
	return p.Pick(mode)
}

// Prepared is an exact value analysed once, from which each mode's result is picked cheaply.
type Prepared struct {
	neg, free, zero bool
	noTiny          bool
	F               *big.Int
	q, minq, l      int
	half            int
	info            RInfo
}

// Prep analyses (-1)^neg * num/den * 10^e10 for floating rounding.
func Prep(neg bool, num, den *big.Int, e10 int) *Prepared {
	return prep(neg, num, den, e10, MinQ, true)
}

func (p *Prepared) Info() RInfo { return p.info }

// WithNeg returns the same magnitude analysis with another sign.
func (p *Prepared) WithNeg(neg bool) *Prepared { c := *p; c.neg = neg; return &c }

func prep(neg bool, num, den *big.Int, e10 int, minq int, free bool) *Prepared {
	var info RInfo
	if num.Sign() == 0 {
		info.Exact, info.Event = true, "zero"
		return &Prepared{neg: neg, zero: true, info: info}
	}
	// estimate decimal magnitude: v in [10^(est-2), 10^(est+1))
	est := NumDigits(num) - NumDigits(den) + e10
	q0 := est - 38
	if q0 < minq || !free {
		q0 = minq
	}
	// X = num*10^(e10-q0)/den
	n2, d2 := num, den
	if sh := e10 - q0; sh >= 0 {
		n2 = new(big.Int).Mul(num, Pow10(sh))
	} else {
		d2 = new(big.Int).Mul(den, Pow10(-sh))
	}
	F0, R := new(big.Int).QuoRem(n2, d2, new(big.Int))
	L := NumDigits(F0)
	s := 0
	if L > 35 {
		s = L - 35
	}
	F := F0
	var m *big.Int
	if s > 0 {
		F, m = new(big.Int).QuoRem(F0, Pow10(s), new(big.Int))
	}
	if F.Cmp(Cmax) > 0 {
		s++
		F, m = new(big.Int).QuoRem(F0, Pow10(s), new(big.Int))
	}
	q := q0 + s
	// fraction analysis
	var half int
	if s == 0 {
		r2 := new(big.Int).Lsh(R, 1)
		half = r2.Cmp(d2)
		info.Exact = R.Sign() == 0
		g := new(big.Int).Mul(R, bigTen)
		g.Quo(g, d2)
		info.Guard = int(g.Int64())
		// sticky: R*10 - g*d2 != 0
		t := new(big.Int).Mul(R, bigTen)
		t.Sub(t, new(big.Int).Mul(g, d2))
		info.Sticky = t.Sign() != 0
	} else {
		h := new(big.Int).Mul(big.NewInt(5), Pow10(s-1))
		half = m.Cmp(h)
		if half == 0 && R.Sign() != 0 {
			half = 1
		}
		info.Exact = m.Sign() == 0 && R.Sign() == 0
		g, rest := new(big.Int).QuoRem(m, Pow10(s-1), new(big.Int))
		info.Guard = int(g.Int64())
		info.Sticky = rest.Sign() != 0 || R.Sign() != 0
	}
	info.OddKept = F.Bit(0) == 1
	return &Prepared{neg: neg, free: free, F: F, q: q, minq: minq, l: L, half: half, info: info}
}

// Pick returns the member selected by mode.
func (p *Prepared) Pick(mode Mode) (Val, RInfo) {
	info := p.info
	neg, free, F, q, minq, L, half := p.neg, p.free, p.F, p.q, p.minq, p.l, p.half
	if p.zero {
		return Val{Class: Fin, Neg: neg, C: new(big.Int), Q: 0}, info
	}
	if q == minq && free && L <= 35 {
		info.Event = "subnormal"
	}
	if F.Sign() == 0 && info.Guard == 0 && !p.noTiny {
		// tiny rule: magnitude below a tenth of the smallest quantum
		info.Event = "tiny0"
		return Val{Class: Fin, Neg: neg, C: new(big.Int), Q: minq}, info
	}
	up := false
	switch mode {
	case NearestEven:
		up = half > 0 || (half == 0 && info.OddKept)
	case NearestAway:
		up = half >= 0
	case ToZero:
	case AwayFromZero:
		up = !info.Exact
	case ToNegInf:
		up = neg && !info.Exact
	case ToPosInf:
		up = !neg && !info.Exact
	}
	C := F
	if up {
		C = new(big.Int).Add(F, bigOne)
		if NumDigits(C) > NumDigits(F) && F.Sign() != 0 {
			info.Event = "carry"
		}
		if C.Cmp(Cmax) > 0 {
			C.Quo(C, bigTen) // Cmax+1 is a multiple of ten
			q++
			info.Event = "seam"
		}
	}
	if C.Sign() == 0 {
		return Val{Class: Fin, Neg: neg, C: new(big.Int), Q: minq}, info
	}
	if q > MaxQ {
		// representable only if C*10^(q-MaxQ) <= Cmax
		if q-MaxQ <= 36 {
			c2 := new(big.Int).Mul(C, Pow10(q-MaxQ))
			if c2.Cmp(Cmax) <= 0 {
				return Val{Class: Fin, Neg: neg, C: c2, Q: MaxQ}, info
			}
		}
		info.Event = "overflow"
		return Val{Class: Inf, Neg: neg}, info
	}
	return Val{Class: Fin, Neg: neg, C: C, Q: q}, info
}

// RoundInt rounds the integer c*10^e (c may be negative).
func RoundInt(c *big.Int, e int, mode Mode) (Val, RInfo) {
	neg := c.Sign() < 0
	a := new(big.Int).Abs(c)
	return Round(neg, a, bigOne, e, mode)
}

// Quantize rounds the finite value v to a multiple of 10^quantum using mode, with the
// quantising tiny rule (|v| < 10^(quantum-1) -> signed zero). The result may need more
// digits than the format has (caller checks representability via Fit).
func Quantize(v Val, quantum int, mode Mode) (Val, RInfo) {
	if v.Q >= quantum {
		return v, RInfo{Exact: true}
	}
	return roundAt(v.Neg, v.C, bigOne, v.Q, mode, quantum, false)
}

// QuantizeNoTiny is Quantize without the tiny rule (Ceil/Floor: least/greatest multiple).
func QuantizeNoTiny(v Val, quantum int, mode Mode) (Val, RInfo) {
	if v.Q >= quantum || v.C.Sign() == 0 {
		return v, RInfo{Exact: true}
	}
	p := prep(v.Neg, v.C, bigOne, v.Q, quantum, false)
	p.noTiny = true
	return p.Pick(mode)
}

// Fit reports whether the finite value c*10^q is a member of the format, returning a
// normalised member (some cohort member) if so.
func Fit(neg bool, c *big.Int, q int) (Val, bool) {
	if c.Sign() == 0 {
		if q < MinQ {
			q = MinQ
		}
		if q > MaxQ {
			q = MaxQ
		}
		return Val{Class: Fin, Neg: neg, C: new(big.Int), Q: q}, true
	}
	c = new(big.Int).Set(c)
	if k := NumDigits(c) - 35; k > 0 {
		// at least k digits must go: strip them in one division
		var r big.Int
		c.QuoRem(c, Pow10(k), &r)
		if r.Sign() != 0 {
			return Val{}, false
		}
		q += k
	}
	if k := MinQ - q; k > 0 {
		if k > 40 {
			return Val{}, false
		}
		var r big.Int
		c.QuoRem(c, Pow10(k), &r)
		if r.Sign() != 0 {
			return Val{}, false
		}
		q += k
	}
	for q < MinQ {
		var r big.Int
		c.QuoRem(c, bigTen, &r)
		if r.Sign() != 0 {
			return Val{}, false
		}
		q++
	}
	for c.Cmp(Cmax) > 0 {
		var r big.Int
		c.QuoRem(c, bigTen, &r)
		if r.Sign() != 0 {
			return Val{}, false
		}
		q++
	}
	if q > MaxQ {
		if q-MaxQ > 36 {
			return Val{}, false
		}
		c.Mul(c, Pow10(q-MaxQ))
		q = MaxQ
		if c.Cmp(Cmax) > 0 {
			return Val{}, false
		}
	}
	return Val{Class: Fin, Neg: neg, C: c, Q: q}, true
}

// Spacing returns the exponent u such that the spacing of the format at magnitude |v|
// (v = num/den*10^e10 > 0) is 10^u: the q that Round would use.
func SpacingExp(num, den *big.Int, e10 int) int {
	v, _ := Round(false, num, den, e10, ToZero)
	if v.Class != Fin || v.C.Sign() == 0 {
		return MinQ
	}
	// normalise v to the largest coefficient
	c := new(big.Int).Set(v.C)
	q := v.Q
	for q > MinQ {
		t := new(big.Int).Mul(c, bigTen)
		if t.Cmp(Cmax) > 0 {
			break
		}
		c = t
		q--
	}
	return q
}
