package ref

import (
	"strconv"
	"strings"
)

// Digits is an exact decimal value 0.D x 10^DP (D has no leading or trailing zeros; empty = zero),
// the representation strconv's formatter works on.
type Digits struct {
	Neg bool
	D   string
	DP  int
}

func DigitsOf(v Val) Digits {
	if v.C.Sign() == 0 {
		return Digits{Neg: v.Neg}
	}
	s := v.C.String()
	t := strings.TrimRight(s, "0")
	return Digits{Neg: v.Neg, D: t, DP: len(s) + v.Q}
}

// Round keeps nd significant digits, rounding half to even on the exact value (strconv's decimal.Round).
func (d Digits) Round(nd int) Digits {
	if nd < 0 || nd >= len(d.D) {
		return d
	}
	up := false
	if d.D[nd] == '5' && nd+1 == len(d.D) {
		up = nd > 0 && (d.D[nd-1]-'0')%2 != 0
	} else {
		up = d.D[nd] >= '5'
	}
	if up {
		b := []byte(d.D[:nd])
		for i := nd - 1; i >= 0; i-- {
			if b[i] < '9' {
				b[i]++
				return Digits{Neg: d.Neg, D: strings.TrimRight(string(b[:i+1]), "0"), DP: d.DP}
			}
		}
		return Digits{Neg: d.Neg, D: "1", DP: d.DP + 1}
	}
	t := strings.TrimRight(d.D[:nd], "0")
	if t == "" {
		return Digits{Neg: d.Neg, DP: 0}
	}
	return Digits{Neg: d.Neg, D: t, DP: d.DP}
}

// FormatFloat is strconv.FormatFloat on exact decimal digits (verbs e,E,f,g,G; prec -1 = all digits).
func FormatFloat(d Digits, verb byte, prec int) string {
	shortest := prec < 0
	nd := len(d.D)
	if shortest {
		switch verb {
		case 'e', 'E':
			prec = nd - 1
		case 'f':
			prec = nd - d.DP
			if prec < 0 {
				prec = 0
			}
		case 'g', 'G':
			prec = nd
		}
	} else {
		switch verb {
		case 'e', 'E':
			d = d.Round(prec + 1)
		case 'f':
			d = d.Round(d.DP + prec)
		case 'g', 'G':
			if prec == 0 {
				prec = 1
			}
			d = d.Round(prec)
		}
		nd = len(d.D)
	}
	var sb strings.Builder
	if d.Neg {
		sb.WriteByte('-')
	}
	switch verb {
	case 'e', 'E':
		fmtE(&sb, d, prec, verb)
	case 'f':
		fmtF(&sb, d, prec)
	case 'g', 'G':
		eprec := prec
		if eprec > nd && nd >= d.DP {
			eprec = nd
		}
		if shortest {
			eprec = 6
		}
		exp := d.DP - 1
		if exp < -4 || exp >= eprec {
			if prec > nd {
				prec = nd
			}
			fmtE(&sb, d, prec-1, verb+'e'-'g')
		} else {
			if prec > d.DP {
				prec = nd
			}
			p := prec - d.DP
			if p < 0 {
				p = 0
			}
			fmtF(&sb, d, p)
		}
	default:
		return "%" + string(verb)
	}
	return sb.String()
}

func fmtE(sb *strings.Builder, d Digits, prec int, e byte) {
	ch := byte('0')
	if len(d.D) != 0 {
		ch = d.D[0]
	}
	sb.WriteByte(ch)
	if prec > 0 {
		sb.WriteByte('.')
		i := 1
		m := len(d.D)
		if m > prec+1 {
			m = prec + 1
		}
		if i < m {
			sb.WriteString(d.D[i:m])
			i = m
		}
		for ; i <= prec; i++ {
			sb.WriteByte('0')
		}
	}
	sb.WriteByte(e)
	exp := d.DP - 1
	if len(d.D) == 0 {
		exp = 0
	}
	if exp < 0 {
		sb.WriteByte('-')
		exp = -exp
	} else {
		sb.WriteByte('+')
	}
	if exp < 10 {
		sb.WriteByte('0')
	}
	sb.WriteString(strconv.Itoa(exp))
}

func fmtF(sb *strings.Builder, d Digits, prec int) {
	if d.DP > 0 {
		m := len(d.D)
		if m > d.DP {
			m = d.DP
		}
		sb.WriteString(d.D[:m])
		for ; m < d.DP; m++ {
			sb.WriteByte('0')
		}
	} else {
		sb.WriteByte('0')
	}
	if prec > 0 {
		sb.WriteByte('.')
		for i := 0; i < prec; i++ {
			ch := byte('0')
			if j := d.DP + i; 0 <= j && j < len(d.D) {
				ch = d.D[j]
			}
			sb.WriteByte(ch)
		}
	}
}

// Spec is a parsed fmt verb specification.
type Spec struct {
	Plus, Minus, Sharp, Space, Zero bool
	Wid, Prec                       int
	WidPresent, PrecPresent         bool
	Verb                            byte
}

func (s Spec) String() string {
	var sb strings.Builder
	if s.Plus {
		sb.WriteByte('+')
	}
	if s.Minus {
		sb.WriteByte('-')
	}
	if s.Sharp {
		sb.WriteByte('#')
	}
	if s.Space {
		sb.WriteByte(' ')
	}
	if s.Zero {
		sb.WriteByte('0')
	}
	if s.WidPresent {
		sb.WriteString(strconv.Itoa(s.Wid))
	}
	if s.PrecPresent {
		sb.WriteByte('.')
		sb.WriteString(strconv.Itoa(s.Prec))
	}
	sb.WriteByte(s.Verb)
	return sb.String()
}

// Sprintf models fmt.Sprintf("%"+spec, float64) for a finite value given by exact digits
// (a port of fmt.(*fmt).fmtFloat and pad from the Go 1.22+ sources).
func Sprintf(d Digits, s Spec) string {
	verb := s.Verb
	prec := -1
	switch verb {
	case 'e', 'E', 'f', 'F':
		prec = 6
	}
	if verb == 'F' {
		verb = 'f'
	}
	if s.PrecPresent {
		prec = s.Prec
	}
	body := FormatFloat(Digits{D: d.D, DP: d.DP}, verb, prec)
	sign := byte('+')
	if d.Neg {
		sign = '-'
	}
	if s.Space && sign == '+' && !s.Plus {
		sign = ' '
	}
	num := body
	if s.Sharp {
		digits := 0
		switch verb {
		case 'g', 'G':
			digits = prec
			if digits == -1 {
				digits = 6
			}
		}
		tail := ""
		hasPoint := false
		sawNonzero := false
		cut := len(num)
	loop:
		for i := 0; i < len(num); i++ {
			switch num[i] {
			case '.':
				hasPoint = true
			case 'e', 'E':
				tail = num[i:]
				cut = i
				break loop
			default:
				if num[i] != '0' {
					sawNonzero = true
				}
				if sawNonzero {
					digits--
				}
			}
		}
		num = num[:cut]
		if !hasPoint {
			if num == "0" {
				digits--
			}
			num += "."
		}
		for digits > 0 {
			num += "0"
			digits--
		}
		num += tail
	}
	pad := func(b string) string {
		if !s.WidPresent || s.Wid == 0 {
			return b
		}
		w := s.Wid - len(b)
		if w <= 0 {
			return b
		}
		pc := " "
		if s.Zero && !s.Minus {
			pc = "0"
		}
		if !s.Minus {
			return strings.Repeat(pc, w) + b
		}
		return b + strings.Repeat(pc, w)
	}
	if s.Plus || sign != '+' {
		full := string(sign) + num
		if s.Zero && !s.Minus && s.WidPresent && s.Wid > len(full) {
			return string(sign) + strings.Repeat("0", s.Wid-len(full)) + num
		}
		return pad(full)
	}
	return pad(num)
}
