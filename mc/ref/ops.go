package ref

import (
	"fmt"
	"math/big"
	"strings"
)

func Zero(neg bool) Val { return Val{Class: Fin, Neg: neg, C: new(big.Int), Q: 0} }

// ExactSum returns the exact a+b (or a-b) of finite values as sign, magnitude coefficient and exponent.
func ExactSum(a, b Val, sub bool) (neg bool, c *big.Int, q int) {
	bn := b.Neg != sub
	q = a.Q
	ac, bc := a.C, b.C
	if b.Q < q {
		q = b.Q
		ac = new(big.Int).Mul(a.C, Pow10(a.Q-q))
	} else if a.Q > q {
		// unreachable
	}
	if b.Q > q {
		bc = new(big.Int).Mul(b.C, Pow10(b.Q-q))
	}
	x := new(big.Int).Set(ac)
	if a.Neg {
		x.Neg(x)
	}
	y := new(big.Int).Set(bc)
	if bn {
		y.Neg(y)
	}
	x.Add(x, y)
	neg = x.Sign() < 0
	return neg, x.Abs(x), q
}

// Add is the specification of AddWithMode/SubWithMode on finite operands (C01).
func Add(a, b Val, sub bool, mode Mode) (Val, RInfo) {
	bn := b.Neg != sub
	az, bz := a.C.Sign() == 0, b.C.Sign() == 0
	switch {
	case az && bz:
		return Zero(a.Neg && bn), RInfo{Exact: true, Event: "zero+zero"}
	case az:
		return Val{Class: Fin, Neg: bn, C: b.C, Q: b.Q}, RInfo{Exact: true, Event: "zero+x"}
	case bz:
		return a, RInfo{Exact: true, Event: "x+zero"}
	}
	neg, c, q := ExactSum(a, b, sub)
	if c.Sign() == 0 {
		return Zero(mode == ToNegInf), RInfo{Exact: true, Event: "cancel"}
	}
	return Round(neg, c, bigOne, q, mode)
}

// PrepAdd analyses the exact sum once for all modes; nil result means a special zero rule applies.
func PrepAdd(a, b Val, sub bool) *Prepared {
	if a.C.Sign() == 0 || b.C.Sign() == 0 {
		return nil
	}
	neg, c, q := ExactSum(a, b, sub)
	if c.Sign() == 0 {
		return nil
	}
	return Prep(neg, c, bigOne, q)
}

// PrepMul analyses the exact product (non-zero finite operands).
func PrepMul(a, b Val) *Prepared {
	return Prep(a.Neg != b.Neg, new(big.Int).Mul(a.C, b.C), bigOne, a.Q+b.Q)
}

// PrepQuo analyses the exact quotient (non-zero finite operands).
func PrepQuo(a, b Val) *Prepared {
	return Prep(a.Neg != b.Neg, a.C, b.C, a.Q-b.Q)
}

// Mul is the specification of MulWithMode on finite operands.
func Mul(a, b Val, mode Mode) (Val, RInfo) {
	neg := a.Neg != b.Neg
	if a.C.Sign() == 0 || b.C.Sign() == 0 {
		return Zero(neg), RInfo{Exact: true, Event: "zero"}
	}
	return PrepMul(a, b).Pick(mode)
}

// Quo is the specification of QuoWithMode on finite operands.
func Quo(a, b Val, mode Mode) (Val, RInfo) {
	neg := a.Neg != b.Neg
	if b.C.Sign() == 0 {
		if a.C.Sign() == 0 {
			return Val{Class: NaN, C: new(big.Int)}, RInfo{Event: "0/0"}
		}
		return Val{Class: Inf, Neg: neg}, RInfo{Event: "x/0"}
	}
	if a.C.Sign() == 0 {
		return Zero(neg), RInfo{Exact: true, Event: "zero"}
	}
	return PrepQuo(a, b).Pick(mode)
}

// QuoRem is the specification for finite x and finite non-zero y: integer quotient N=trunc(x/y),
// remainder r = x - y*N (exact). qv is N rounded by mode only if it is not a member.
// rc/rq give the exact remainder magnitude rc*10^rq with the sign of x.
func QuoRem(a, b Val, mode Mode) (qv Val, rc *big.Int, rq int, n *big.Int) {
	qneg := a.Neg != b.Neg
	if a.C.Sign() == 0 {
		return Zero(qneg), new(big.Int), a.Q, new(big.Int)
	}
	q := a.Q
	ac, bc := a.C, b.C
	if b.Q < q {
		q = b.Q
		ac = new(big.Int).Mul(a.C, Pow10(a.Q-q))
	}
	if b.Q > q {
		bc = new(big.Int).Mul(b.C, Pow10(b.Q-q))
	}
	n, rc = new(big.Int).QuoRem(ac, bc, new(big.Int))
	rq = q
	if n.Sign() == 0 {
		return Zero(qneg), rc, rq, n
	}
	if v, ok := Fit(qneg, n, 0); ok {
		return v, rc, rq, n
	}
	qv, _ = Round(qneg, n, bigOne, 0, mode)
	return qv, rc, rq, n
}

// Lit is an exactly evaluated literal.
type Lit struct {
	Class Class
	Neg   bool
	C     *big.Int
	Q     int
}

// ParseLit evaluates a decimal literal exactly: [+-]digits[.digits][(e|E)[+-]digits], digits may
// contain '_' between digits; or inf/infinity/nan in any case. It is the model's own reader and
// does not use the library. ok=false if s is not in the documented syntax.
func ParseLit(s string) (Lit, bool) {
	i := 0
	neg := false
	if i < len(s) && (s[i] == '+' || s[i] == '-') {
		neg = s[i] == '-'
		i++
	}
	rest := strings.ToLower(s[i:])
	switch rest {
	case "inf", "infinity":
		return Lit{Class: Inf, Neg: neg}, true
	case "nan":
		return Lit{Class: NaN, Neg: neg}, true
	}
	var digs []byte
	nint, nfrac := 0, 0
	sawDot := false
	prevDigit := false
	for ; i < len(s); i++ {
		ch := s[i]
		switch {
		case ch >= '0' && ch <= '9':
			digs = append(digs, ch)
			if sawDot {
				nfrac++
			} else {
				nint++
			}
			prevDigit = true
			continue
		case ch == '_':
			if !prevDigit || i+1 >= len(s) || s[i+1] < '0' || s[i+1] > '9' {
				return Lit{}, false
			}
			prevDigit = false
			continue
		case ch == '.':
			if sawDot {
				return Lit{}, false
			}
			sawDot = true
			prevDigit = false
			continue
		}
		break
	}
	if nint+nfrac == 0 {
		return Lit{}, false
	}
	exp := new(big.Int)
	if i < len(s) {
		if s[i] != 'e' && s[i] != 'E' {
			return Lit{}, false
		}
		i++
		eneg := false
		if i < len(s) && (s[i] == '+' || s[i] == '-') {
			eneg = s[i] == '-'
			i++
		}
		start := i
		var ed []byte
		prevDigit = false
		for ; i < len(s); i++ {
			ch := s[i]
			if ch >= '0' && ch <= '9' {
				ed = append(ed, ch)
				prevDigit = true
				continue
			}
			if ch == '_' && prevDigit && i+1 < len(s) && s[i+1] >= '0' && s[i+1] <= '9' {
				prevDigit = false
				continue
			}
			return Lit{}, false
		}
		if i == start || len(ed) == 0 {
			return Lit{}, false
		}
		exp.SetString(string(ed), 10)
		if eneg {
			exp.Neg(exp)
		}
	}
	c, _ := new(big.Int).SetString(string(digs), 10)
	exp.Sub(exp, big.NewInt(int64(nfrac)))
	q := 0
	if exp.IsInt64() && exp.Int64() > -1<<40 && exp.Int64() < 1<<40 {
		q = int(exp.Int64())
	} else if exp.Sign() > 0 {
		q = 1 << 40
	} else {
		q = -(1 << 40)
	}
	return Lit{Class: Fin, Neg: neg, C: c, Q: q}, true
}

// RoundLit rounds an exact literal into the format.
func RoundLit(l Lit, mode Mode) Val {
	switch l.Class {
	case Inf:
		return Val{Class: Inf, Neg: l.Neg}
	case NaN:
		return Val{Class: NaN, Neg: l.Neg, C: new(big.Int)}
	}
	if l.C.Sign() == 0 {
		return Zero(l.Neg)
	}
	nd := NumDigits(l.C)
	if l.Q+nd > MaxQ+40 {
		return Val{Class: Inf, Neg: l.Neg}
	}
	if l.Q+nd < MinQ-2 {
		return Zero(l.Neg)
	}
	v, _ := Round(l.Neg, l.C, bigOne, l.Q, mode)
	return v
}

func MustLit(s string) Val {
	l, ok := ParseLit(s)
	if !ok {
		panic(fmt.Sprintf("bad literal %q", s))
	}
	return RoundLit(l, NearestEven)
}
