// Package ref is the reference model: an independent IEEE 754-2008 BID decimal128
// codec, exact values on math/big, and the rounding specification.
// Nothing here imports the library under test.
package ref

import (
	"fmt"
	"math/big"
)

type Class uint8

const (
	Fin Class = iota
	Inf
	NaN
)

const (
	MinQ = -6176
	MaxQ = 6111
	Bias = 6176
)

// Cmax = 5*2^111 - 1, the largest coefficient the 128-bit layout can hold.
var Cmax, CmaxP1 *big.Int

func init() {
	Cmax = new(big.Int).Lsh(big.NewInt(5), 111)
	CmaxP1 = new(big.Int).Set(Cmax)
	Cmax.Sub(Cmax, big.NewInt(1))
}

// Val is a decoded Decimal: (-1)^Neg * C * 10^Q, or Inf/NaN. For NaN, C holds the
// low 110 bits (payload) for diagnostics.
type Val struct {
	Class Class
	Neg   bool
	C     *big.Int
	Q     int
}

// Bits is the 128-bit pattern, big-endian as MarshalBinary emits it.
type Bits [16]byte

func (b Bits) Hi() uint64 {
	return uint64(b[0])<<56 | uint64(b[1])<<48 | uint64(b[2])<<40 | uint64(b[3])<<32 | uint64(b[4])<<24 | uint64(b[5])<<16 | uint64(b[6])<<8 | uint64(b[7])
}
func (b Bits) Lo() uint64 {
	return uint64(b[8])<<56 | uint64(b[9])<<48 | uint64(b[10])<<40 | uint64(b[11])<<32 | uint64(b[12])<<24 | uint64(b[13])<<16 | uint64(b[14])<<8 | uint64(b[15])
}
func FromWords(hi, lo uint64) Bits {
	var b Bits
	for i := 0; i < 8; i++ {
		b[i] = byte(hi >> (56 - 8*i))
		b[8+i] = byte(lo >> (56 - 8*i))
	}
	return b
}
func (b Bits) Hex() string { return fmt.Sprintf("%016x%016x", b.Hi(), b.Lo()) }

func ParseHex(s string) (Bits, error) {
	var hi, lo uint64
	if len(s) != 32 {
		return Bits{}, fmt.Errorf("bad bits %q", s)
	}
	if _, err := fmt.Sscanf(s[:16], "%016x", &hi); err != nil {
		return Bits{}, err
	}
	if _, err := fmt.Sscanf(s[16:], "%016x", &lo); err != nil {
		return Bits{}, err
	}
	return FromWords(hi, lo), nil
}

// Decode follows IEEE 754-2008 3.5.2 (binary encoding of the significand), written from
// the standard: G0..G16 are the 17 bits after the sign.
func Decode(b Bits) Val {
	hi, lo := b.Hi(), b.Lo()
	neg := hi>>63 == 1
	g := (hi >> 46) & 0x1ffff // G0..G16, G0 is the top bit
	g0123 := g >> 13
	if g0123 == 0xf {
		if (g>>12)&1 == 0 {
			return Val{Class: Inf, Neg: neg}
		}
		p := new(big.Int).SetUint64(hi & 0x3fffffffffff)
		p.Lsh(p, 64).Or(p, new(big.Int).SetUint64(lo))
		return Val{Class: NaN, Neg: neg, C: p}
	}
	t := new(big.Int).SetUint64(hi & 0x3fffffffffff) // trailing significand: 110 bits = 46 + 64
	t.Lsh(t, 64).Or(t, new(big.Int).SetUint64(lo))
	var be uint64
	var lead uint64
	if g>>15 != 3 {
		be = g >> 3  // G0..G13
		lead = g & 7 // G14..G16 -> 0..7
	} else {
		be = (g >> 1) & 0x3fff // G2..G15
		lead = 8 + (g & 1)     // 100 G16
	}
	c := new(big.Int).SetUint64(lead)
	c.Lsh(c, 110).Or(c, t)
	return Val{Class: Fin, Neg: neg, C: c, Q: int(be) - Bias}
}

// Encode builds the pattern for a finite member. ok=false if not a member.
func Encode(neg bool, c *big.Int, q int) (Bits, bool) {
	if c.Sign() < 0 || c.Cmp(Cmax) > 0 || q < MinQ || q > MaxQ {
		return Bits{}, false
	}
	be := uint64(q + Bias)
	w := c.Bits()
	var lo, hi uint64
	m := new(big.Int).Set(c)
	lo = new(big.Int).And(m, new(big.Int).SetUint64(^uint64(0))).Uint64()
	hi = new(big.Int).Rsh(m, 64).Uint64()
	_ = w
	var top uint64
	if hi>>49 == 0 { // coefficient < 2^113
		top = be<<49 | hi
	} else { // 2^113 <= c: lead = 100x
		top = 3<<61 | be<<47 | (hi & 0x7fffffffffff)
	}
	if neg {
		top |= 1 << 63
	}
	return FromWords(top, lo), true
}

func EncInf(neg bool) Bits {
	if neg {
		return FromWords(0xf800000000000000, 0)
	}
	return FromWords(0x7800000000000000, 0)
}

func (v Val) IsZero() bool { return v.Class == Fin && v.C.Sign() == 0 }

func (v Val) String() string {
	s := "+"
	if v.Neg {
		s = "-"
	}
	switch v.Class {
	case Inf:
		return s + "Inf"
	case NaN:
		return s + "NaN(" + v.C.Text(16) + ")"
	}
	return fmt.Sprintf("%s%se%d", s, v.C.String(), v.Q)
}

// SameValue: equal class, sign (also on zero) and numeric value; NaN matches NaN.
func SameValue(a, b Val) bool {
	if a.Class != b.Class {
		return false
	}
	if a.Class == NaN {
		return true
	}
	if a.Neg != b.Neg {
		return false
	}
	if a.Class == Inf {
		return true
	}
	return CmpMag(a, b) == 0
}

// CmpMag compares |a| and |b| for finite values exactly.
func CmpMag(a, b Val) int {
	if a.C.Sign() == 0 || b.C.Sign() == 0 {
		return a.C.Sign() - b.C.Sign()
	}
	if a.Q == b.Q {
		return a.C.Cmp(b.C)
	}
	// quick decision by adjusted exponent
	ea, eb := a.Q+NumDigits(a.C), b.Q+NumDigits(b.C)
	if ea != eb {
		if ea < eb {
			return -1
		}
		return 1
	}
	if a.Q > b.Q {
		x := new(big.Int).Mul(a.C, Pow10(a.Q-b.Q))
		return x.Cmp(b.C)
	}
	y := new(big.Int).Mul(b.C, Pow10(b.Q-a.Q))
	return a.C.Cmp(y)
}

// Cmp compares two non-NaN values exactly (-0 == +0).
func Cmp(a, b Val) int {
	sa, sb := sgn(a), sgn(b)
	if sa != sb {
		if sa < sb {
			return -1
		}
		return 1
	}
	if sa == 0 {
		return 0
	}
	var m int
	switch {
	case a.Class == Inf && b.Class == Inf:
		m = 0
	case a.Class == Inf:
		m = 1
	case b.Class == Inf:
		m = -1
	default:
		m = CmpMag(a, b)
	}
	return m * sa
}

func sgn(v Val) int {
	if v.Class == Fin && v.C.Sign() == 0 {
		return 0
	}
	if v.Neg {
		return -1
	}
	return 1
}

var pow10cache []*big.Int

func init() {
	pow10cache = make([]*big.Int, 0, 12500)
	p := big.NewInt(1)
	ten := big.NewInt(10)
	for i := 0; i < 12500; i++ {
		pow10cache = append(pow10cache, new(big.Int).Set(p))
		p.Mul(p, ten)
	}
}

// Pow10 returns 10^n (n>=0). Values up to 10^12499 are cached; larger ones computed.
func Pow10(n int) *big.Int {
	if n < 0 {
		panic("Pow10 negative")
	}
	if n < len(pow10cache) {
		return pow10cache[n]
	}
	return new(big.Int).Exp(big.NewInt(10), big.NewInt(int64(n)), nil)
}

// NumDigits returns the number of decimal digits of c>0 (0 for 0).
func NumDigits(c *big.Int) int {
	if c.Sign() == 0 {
		return 0
	}
	bl := c.BitLen()
	// digits ~ floor(bl*log10(2)) + 1, correct by comparing
	d := (bl*30103)/100000 + 1
	if d < len(pow10cache)+1 {
		if d-1 >= 0 && d-1 < len(pow10cache) && c.CmpAbs(pow10cache[d-1]) < 0 {
			return d - 1
		}
		if d < len(pow10cache) && c.CmpAbs(pow10cache[d]) >= 0 {
			return d + 1
		}
		return d
	}
	return len(c.Text(10)) - boolInt(c.Sign() < 0)
}

func boolInt(b bool) int {
	if b {
		return 1
	}
	return 0
}

// Rat returns the exact value of a finite Val.
func (v Val) Rat() *big.Rat {
	r := new(big.Rat)
	if v.Q >= 0 {
		r.SetInt(new(big.Int).Mul(v.C, Pow10(v.Q)))
	} else {
		r.SetFrac(v.C, Pow10(-v.Q))
	}
	if v.Neg {
		r.Neg(r)
	}
	return r
}
