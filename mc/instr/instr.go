// Package instr rewrites a copy of the library's current non-test sources so that every statement
// touching a package-level variable first calls verifsched.Point, and emits a go build -overlay
// description. /repo itself is never modified.
package instr

import (
	"bytes"
	"encoding/json"
	"fmt"
	"go/ast"
	"go/importer"
	"go/parser"
	"go/printer"
	"go/token"
	"go/types"
	"os"
	"path/filepath"
	"sort"
	"strconv"
	"strings"
)

type Site struct {
	ID    int    `json:"id"`
	Pos   string `json:"pos"`
	Vars  string `json:"vars"`
	Write bool   `json:"write"`
}

type Info struct {
	PackageVars []string `json:"package_vars"`
	// SnapshotExcluded: package-level sync.Pool variables. A pool's representation (per-P and victim pointers)
	// changes with the garbage collector, not with what the code does; whether pooled objects leak into results
	// is decided by the result comparisons (ownership, retained results, interleaved == sequential).
	SnapshotExcluded []string `json:"snapshot_excluded"`
	WrittenVars      []string `json:"written_vars"` // variables with at least one may-write site inside the package
	WriteSites       []string `json:"write_sites"`
	Sites            []Site   `json:"sites"`
	Overlay          string   `json:"overlay"`
	SyncImports      []string `json:"sync_imports"` // files importing sync / sync/atomic (sync is redirected to the yielding shim)
	TaintedFuncs     []string `json:"tainted_funcs"`
}

const schedPath = "github.com/woodsbury/decimal128/verifsched"

// Generate instruments repo's package into outDir. If allVars is false only variables that have a
// may-write site are given scheduling points (reads of immutable data commute).
func Generate(repo, outDir, schedSrc string, allVars bool) (*Info, error) {
	fset := token.NewFileSet()
	ents, err := os.ReadDir(repo)
	if err != nil {
		return nil, err
	}
	var files []*ast.File
	var names []string
	for _, e := range ents {
		n := e.Name()
		if e.IsDir() || !strings.HasSuffix(n, ".go") || strings.HasSuffix(n, "_test.go") {
			continue
		}
		f, err := parser.ParseFile(fset, filepath.Join(repo, n), nil, parser.ParseComments)
		if err != nil {
			return nil, err
		}
		// honour build constraints crudely: skip files with a //go:build line that excludes the default build
		skip := false
		for _, cg := range f.Comments {
			for _, c := range cg.List {
				if strings.HasPrefix(c.Text, "//go:build") && c.Pos() < f.Package {
					expr := strings.TrimSpace(strings.TrimPrefix(c.Text, "//go:build"))
					if expr == "ignore" || expr == "verif" || strings.HasPrefix(expr, "ignore ") {
						skip = true
					}
				}
			}
		}
		if skip {
			continue
		}
		files = append(files, f)
		names = append(names, n)
	}
	conf := types.Config{Importer: importer.ForCompiler(fset, "source", nil), Error: func(error) {}}
	info := &types.Info{Uses: map[*ast.Ident]types.Object{}, Defs: map[*ast.Ident]types.Object{}, Selections: map[*ast.SelectorExpr]*types.Selection{}, Types: map[ast.Expr]types.TypeAndValue{}}
	pkg, err := conf.Check("github.com/woodsbury/decimal128", fset, files, info)
	if err != nil && pkg == nil {
		return nil, fmt.Errorf("type check: %v", err)
	}
	res := &Info{}
	pvars := map[types.Object]bool{}
	for _, n := range pkg.Scope().Names() {
		if v, ok := pkg.Scope().Lookup(n).(*types.Var); ok {
			pvars[v] = true
			if strings.Contains(types.TypeString(v.Type(), nil), "sync.Pool") {
				res.SnapshotExcluded = append(res.SnapshotExcluded, n)
				continue
			}
			res.PackageVars = append(res.PackageVars, n)
		}
	}
	globalOf := func(e ast.Expr) types.Object {
		// root identifier of a selector/index/slice/star/paren chain
		for {
			switch x := e.(type) {
			case *ast.Ident:
				if o := info.Uses[x]; o != nil && pvars[o] {
					return o
				}
				return nil
			case *ast.SelectorExpr:
				e = x.X
			case *ast.IndexExpr:
				e = x.X
			case *ast.SliceExpr:
				e = x.X
			case *ast.StarExpr:
				e = x.X
			case *ast.ParenExpr:
				e = x.X
			default:
				return nil
			}
		}
	}
	written := map[types.Object]bool{}
	markWrite := func(e ast.Expr, why string) {
		if o := globalOf(e); o != nil {
			written[o] = true
			res.WriteSites = append(res.WriteSites, fmt.Sprintf("%s: %s (%s)", fset.Position(e.Pos()), o.Name(), why))
		}
	}
	isRefType := func(e ast.Expr) bool {
		tv, ok := info.Types[e]
		if !ok {
			return true
		}
		switch tv.Type.Underlying().(type) {
		case *types.Slice, *types.Map, *types.Pointer, *types.Chan:
			return true
		}
		return false
	}
	for _, f := range files {
		ast.Inspect(f, func(n ast.Node) bool {
			switch x := n.(type) {
			case *ast.AssignStmt:
				for _, l := range x.Lhs {
					markWrite(l, "assignment")
				}
			case *ast.IncDecStmt:
				markWrite(x.X, "inc/dec")
			case *ast.RangeStmt:
				if x.Key != nil {
					markWrite(x.Key, "range key")
				}
				if x.Value != nil {
					markWrite(x.Value, "range value")
				}
			case *ast.UnaryExpr:
				if x.Op == token.AND {
					markWrite(x.X, "address taken")
				}
			case *ast.SliceExpr:
				// slicing an array-typed global yields a writable view
				if tv, ok := info.Types[x.X]; ok {
					if _, isArr := tv.Type.Underlying().(*types.Array); isArr {
						markWrite(x.X, "array sliced")
					}
				}
			case *ast.CallExpr:
				for _, a := range x.Args {
					if id, ok := a.(*ast.Ident); ok && globalOf(id) != nil && isRefType(a) {
						markWrite(a, "reference passed to a call")
					}
				}
				if sel, ok := x.Fun.(*ast.SelectorExpr); ok {
					if s := info.Selections[sel]; s != nil && s.Kind() == types.MethodVal {
						if sig, ok := s.Obj().Type().(*types.Signature); ok && sig.Recv() != nil {
							if _, ptr := sig.Recv().Type().(*types.Pointer); ptr {
								markWrite(sel.X, "pointer-receiver method")
							}
						}
					}
				}
			}
			return true
		})
	}
	for o := range written {
		res.WrittenVars = append(res.WrittenVars, o.Name())
	}
	sort.Strings(res.WrittenVars)
	target := func(o types.Object) bool { return allVars || written[o] }

	// Taint: a function in which the address of (or a reference to) a written variable escapes into locals,
	// and everything it can call inside the package, gets scheduling points at entry and at every loop
	// iteration, because accesses through the escaped pointer no longer mention the variable by name.
	funcOf := map[*ast.FuncDecl]types.Object{}
	declOf := map[types.Object]*ast.FuncDecl{}
	calls := map[*ast.FuncDecl][]types.Object{}
	seed := map[*ast.FuncDecl]bool{}
	for _, f := range files {
		for _, d := range f.Decls {
			fd, ok := d.(*ast.FuncDecl)
			if !ok || fd.Body == nil {
				continue
			}
			obj := info.Defs[fd.Name]
			funcOf[fd] = obj
			declOf[obj] = fd
			ast.Inspect(fd.Body, func(n ast.Node) bool {
				switch x := n.(type) {
				case *ast.CallExpr:
					var id *ast.Ident
					switch fn := x.Fun.(type) {
					case *ast.Ident:
						id = fn
					case *ast.SelectorExpr:
						id = fn.Sel
					}
					if id != nil {
						if o, ok := info.Uses[id].(*types.Func); ok && o.Pkg() == pkg {
							calls[fd] = append(calls[fd], o)
						}
					}
					for _, a := range x.Args {
						if o := globalOf(a); o != nil && written[o] && isRefType(a) {
							seed[fd] = true
						}
					}
				case *ast.UnaryExpr:
					if x.Op == token.AND {
						if o := globalOf(x.X); o != nil && written[o] {
							seed[fd] = true
						}
					}
				case *ast.AssignStmt:
					// a reference-typed written global copied into something else
					for _, r := range x.Rhs {
						if o := globalOf(r); o != nil && written[o] && isRefType(r) {
							seed[fd] = true
						}
					}
				case *ast.SliceExpr:
					if o := globalOf(x.X); o != nil && written[o] {
						seed[fd] = true
					}
				}
				return true
			})
		}
	}
	tainted := map[*ast.FuncDecl]bool{}
	var work []*ast.FuncDecl
	for fd := range seed {
		tainted[fd] = true
		work = append(work, fd)
	}
	for len(work) > 0 {
		fd := work[len(work)-1]
		work = work[:len(work)-1]
		for _, o := range calls[fd] {
			// a callee can only reach the escaped reference through a reference-typed parameter or receiver
			if sig, ok := o.Type().(*types.Signature); ok {
				canReach := false
				check := func(t types.Type) {
					switch t.Underlying().(type) {
					case *types.Pointer, *types.Slice, *types.Map, *types.Chan, *types.Interface, *types.Signature:
						canReach = true
					}
				}
				if sig.Recv() != nil {
					check(sig.Recv().Type())
				}
				for i := 0; i < sig.Params().Len(); i++ {
					check(sig.Params().At(i).Type())
				}
				if !canReach {
					continue
				}
			}
			if cd := declOf[o]; cd != nil && !tainted[cd] {
				tainted[cd] = true
				work = append(work, cd)
			}
		}
	}
	for fd := range tainted {
		res.TaintedFuncs = append(res.TaintedFuncs, fd.Name.Name)
	}
	sort.Strings(res.TaintedFuncs)

	// references in an expression/simple statement (not descending into function literals)
	type refs struct {
		vars  map[string]bool
		write bool
	}
	collect := func(nodes ...ast.Node) refs {
		r := refs{vars: map[string]bool{}}
		for _, n := range nodes {
			if n == nil {
				continue
			}
			ast.Inspect(n, func(m ast.Node) bool {
				switch x := m.(type) {
				case *ast.FuncLit:
					return false
				case *ast.Ident:
					if o := info.Uses[x]; o != nil && pvars[o] && target(o) {
						r.vars[o.Name()] = true
						if written[o] {
							r.write = true
						}
					}
				}
				return true
			})
		}
		return r
	}
	nonNil := func(ns ...ast.Node) []ast.Node {
		var out []ast.Node
		for _, n := range ns {
			switch v := n.(type) {
			case nil:
			case ast.Stmt:
				if v != nil {
					out = append(out, n)
				}
			case ast.Expr:
				if v != nil {
					out = append(out, n)
				}
			default:
				out = append(out, n)
			}
		}
		return out
	}
	point := func(pos token.Pos, r refs) ast.Stmt {
		id := len(res.Sites)
		var vs []string
		for v := range r.vars {
			vs = append(vs, v)
		}
		sort.Strings(vs)
		res.Sites = append(res.Sites, Site{ID: id, Pos: fset.Position(pos).String(), Vars: strings.Join(vs, ","), Write: r.write})
		return &ast.ExprStmt{X: &ast.CallExpr{Fun: &ast.SelectorExpr{X: ast.NewIdent("verifsched"), Sel: ast.NewIdent("Point")},
			Args: []ast.Expr{&ast.BasicLit{Kind: token.INT, Value: strconv.Itoa(id)}, ast.NewIdent(strconv.FormatBool(r.write))}}}
	}
	var rewriteList func(list []ast.Stmt) []ast.Stmt
	var rewriteStmt func(s ast.Stmt)
	headerRefs := func(s ast.Stmt) (refs, *ast.BlockStmt) {
		switch x := s.(type) {
		case *ast.IfStmt:
			var n []ast.Node
			if x.Init != nil {
				n = append(n, x.Init)
			}
			n = append(n, x.Cond)
			return collect(n...), nil
		case *ast.ForStmt:
			var n []ast.Node
			if x.Init != nil {
				n = append(n, x.Init)
			}
			if x.Cond != nil {
				n = append(n, x.Cond)
			}
			if x.Post != nil {
				n = append(n, x.Post)
			}
			return collect(n...), x.Body
		case *ast.RangeStmt:
			return collect(nonNil(x.Key, x.Value, x.X)...), x.Body
		case *ast.SwitchStmt:
			var n []ast.Node
			if x.Init != nil {
				n = append(n, x.Init)
			}
			if x.Tag != nil {
				n = append(n, x.Tag)
			}
			// case expressions are evaluated as part of the switch
			for _, c := range x.Body.List {
				for _, e := range c.(*ast.CaseClause).List {
					n = append(n, e)
				}
			}
			return collect(n...), nil
		case *ast.TypeSwitchStmt:
			return collect(nonNil(x.Init, x.Assign)...), nil
		case *ast.BlockStmt, *ast.SelectStmt, *ast.LabeledStmt:
			return refs{vars: map[string]bool{}}, nil
		}
		return collect(s), nil
	}
	rewriteStmt = func(s ast.Stmt) {
		switch x := s.(type) {
		case *ast.BlockStmt:
			x.List = rewriteList(x.List)
		case *ast.IfStmt:
			rewriteStmt(x.Body)
			if x.Else != nil {
				rewriteStmt(x.Else)
			}
		case *ast.ForStmt:
			rewriteStmt(x.Body)
		case *ast.RangeStmt:
			rewriteStmt(x.Body)
		case *ast.SwitchStmt:
			for _, c := range x.Body.List {
				cc := c.(*ast.CaseClause)
				cc.Body = rewriteList(cc.Body)
			}
		case *ast.TypeSwitchStmt:
			for _, c := range x.Body.List {
				cc := c.(*ast.CaseClause)
				cc.Body = rewriteList(cc.Body)
			}
		case *ast.SelectStmt:
			for _, c := range x.Body.List {
				cc := c.(*ast.CommClause)
				cc.Body = rewriteList(cc.Body)
			}
		case *ast.LabeledStmt:
			rewriteStmt(x.Stmt)
		}
		// function literals inside the statement
		ast.Inspect(s, func(m ast.Node) bool {
			if fl, ok := m.(*ast.FuncLit); ok {
				fl.Body.List = rewriteList(fl.Body.List)
				return false
			}
			return true
		})
	}
	inTainted := false
	rewriteList = func(list []ast.Stmt) []ast.Stmt {
		var out []ast.Stmt
		for _, s := range list {
			r, loopBody := headerRefs(s)
			rewriteStmt(s)
			if inTainted && len(r.vars) == 0 {
				var body *ast.BlockStmt
				switch x := s.(type) {
				case *ast.ForStmt:
					body = x.Body
				case *ast.RangeStmt:
					body = x.Body
				}
				if body != nil {
					body.List = append([]ast.Stmt{point(body.Pos(), refs{vars: map[string]bool{"(escaped reference: loop)": true}, write: true})}, body.List...)
				}
			}
			if len(r.vars) > 0 {
				out = append(out, point(s.Pos(), r))
				if loopBody != nil {
					loopBody.List = append([]ast.Stmt{point(loopBody.Pos(), r)}, loopBody.List...)
				}
			}
			out = append(out, s)
		}
		return out
	}
	if err := os.MkdirAll(outDir, 0o755); err != nil {
		return nil, err
	}
	overlay := map[string]string{}
	for i, f := range files {
		before := len(res.Sites)
		for _, im := range f.Imports {
			p, _ := strconv.Unquote(im.Path.Value)
			if p == "sync" || p == "sync/atomic" {
				res.SyncImports = append(res.SyncImports, names[i]+": "+p)
			}
		}
		usesSync := false
		for _, im := range f.Imports {
			if p, _ := strconv.Unquote(im.Path.Value); p == "sync" {
				im.Path.Value = strconv.Quote(schedPath + "/vsync")
				if im.Name == nil {
					im.Name = ast.NewIdent("sync")
				}
				usesSync = true
			}
		}
		for _, d := range f.Decls {
			if fd, ok := d.(*ast.FuncDecl); ok && fd.Body != nil {
				inTainted = tainted[fd]
				fd.Body.List = rewriteList(fd.Body.List)
				if inTainted {
					fd.Body.List = append([]ast.Stmt{point(fd.Body.Pos(), refs{vars: map[string]bool{"(escaped reference: entry of " + fd.Name.Name + ")": true}, write: true})}, fd.Body.List...)
				}
				inTainted = false
			}
		}
		if len(res.Sites) == before && !usesSync {
			continue
		}
		if len(res.Sites) == before {
			// only the import changed
			var buf bytes.Buffer
			f.Comments = nil
			if err := printer.Fprint(&buf, fset, f); err != nil {
				return nil, err
			}
			dst := filepath.Join(outDir, names[i])
			os.WriteFile(dst, buf.Bytes(), 0o644)
			overlay[filepath.Join(repo, names[i])] = dst
			continue
		}
		// add the import
		imp := &ast.GenDecl{Tok: token.IMPORT, Specs: []ast.Spec{&ast.ImportSpec{Name: ast.NewIdent("verifsched"), Path: &ast.BasicLit{Kind: token.STRING, Value: strconv.Quote(schedPath)}}}}
		f.Decls = append([]ast.Decl{imp}, f.Decls...)
		var buf bytes.Buffer
		// comments are dropped on purpose: positions no longer match after rewriting
		f.Comments = nil
		if err := printer.Fprint(&buf, fset, f); err != nil {
			return nil, err
		}
		dst := filepath.Join(outDir, names[i])
		if err := os.WriteFile(dst, buf.Bytes(), 0o644); err != nil {
			return nil, err
		}
		overlay[filepath.Join(repo, names[i])] = dst
	}
	// snapshot of every package-level variable
	var sb strings.Builder
	sb.WriteString("package decimal128\n\nimport \"fmt\"\n\n// VerifSnapshot renders every package-level variable (generated by the C20 check; overlay only).\nfunc VerifSnapshot() string {\n\treturn fmt.Sprint(")
	for i, v := range res.PackageVars {
		if i > 0 {
			sb.WriteString(", \"|\", ")
		}
		sb.WriteString(v)
	}
	if len(res.PackageVars) == 0 {
		sb.WriteString("\"\"")
	}
	sb.WriteString(")\n}\n\n// VerifPackageVars lists the variables covered by VerifSnapshot.\nvar verifPackageVarNames = " + fmt.Sprintf("%#v", res.PackageVars) + "\n\nfunc VerifPackageVars() []string { return verifPackageVarNames }\n")
	snap := filepath.Join(outDir, "zz_verif_snapshot.go")
	if err := os.WriteFile(snap, []byte(sb.String()), 0o644); err != nil {
		return nil, err
	}
	overlay[filepath.Join(repo, "zz_verif_snapshot.go")] = snap
	overlay[filepath.Join(repo, "verifsched", "sched.go")] = schedSrc
	overlay[filepath.Join(repo, "verifsched", "vsync", "vsync.go")] = filepath.Join(filepath.Dir(schedSrc), "vsync", "vsync.go")
	ob, _ := json.MarshalIndent(map[string]any{"Replace": overlay}, "", " ")
	res.Overlay = filepath.Join(outDir, "overlay.json")
	if err := os.WriteFile(res.Overlay, ob, 0o644); err != nil {
		return nil, err
	}
	ib, _ := json.MarshalIndent(res, "", " ")
	os.WriteFile(filepath.Join(outDir, "instr_info.json"), ib, 0o644)
	return res, nil
}
