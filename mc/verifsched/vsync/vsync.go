// Package vsync replaces "sync" inside the instrumented library: every operation is a scheduling point and
// blocking is modelled, so a lock introduced by a change cannot wedge the cooperative scheduler.
package vsync

import (
	"sync"

	"github.com/woodsbury/decimal128/verifsched"
)

type Locker = sync.Locker

type Mutex struct {
	real   sync.Mutex
	locked bool
}

func (m *Mutex) Lock() {
	if !verifsched.Active() {
		m.real.Lock()
		return
	}
	verifsched.Point(-2, true)
	verifsched.Wait(func() bool { return !m.locked })
	m.locked = true
}

func (m *Mutex) Unlock() {
	if !verifsched.Active() {
		m.real.Unlock()
		return
	}
	m.locked = false
	verifsched.Point(-2, true)
}

func (m *Mutex) TryLock() bool {
	if !verifsched.Active() {
		return m.real.TryLock()
	}
	verifsched.Point(-2, true)
	if m.locked {
		return false
	}
	m.locked = true
	return true
}

type RWMutex struct {
	real    sync.RWMutex
	writer  bool
	readers int
}

func (m *RWMutex) Lock() {
	if !verifsched.Active() {
		m.real.Lock()
		return
	}
	verifsched.Point(-2, true)
	verifsched.Wait(func() bool { return !m.writer && m.readers == 0 })
	m.writer = true
}
func (m *RWMutex) Unlock() {
	if !verifsched.Active() {
		m.real.Unlock()
		return
	}
	m.writer = false
	verifsched.Point(-2, true)
}
func (m *RWMutex) RLock() {
	if !verifsched.Active() {
		m.real.RLock()
		return
	}
	verifsched.Point(-2, false)
	verifsched.Wait(func() bool { return !m.writer })
	m.readers++
}
func (m *RWMutex) RUnlock() {
	if !verifsched.Active() {
		m.real.RUnlock()
		return
	}
	m.readers--
	verifsched.Point(-2, false)
}
func (m *RWMutex) RLocker() Locker { return rlocker{m} }

type rlocker struct{ m *RWMutex }

func (r rlocker) Lock()   { r.m.RLock() }
func (r rlocker) Unlock() { r.m.RUnlock() }

type Once struct {
	real    sync.Once
	done    bool
	running bool
}

func (o *Once) Do(f func()) {
	if !verifsched.Active() {
		// sequential phases of the harness (one goroutine): keep the modelled state in step with the real one,
		// so that an initialisation done here is not repeated under exploration
		o.real.Do(f)
		o.done = true
		return
	}
	verifsched.Point(-2, true)
	if o.done {
		return
	}
	if o.running {
		verifsched.Wait(func() bool { return o.done })
		return
	}
	o.running = true
	f()
	o.done = true
	o.real.Do(func() {})
	verifsched.Point(-2, true)
}

type WaitGroup = sync.WaitGroup
type Pool = sync.Pool
type Map = sync.Map
type Cond = sync.Cond

func NewCond(l Locker) *Cond { return sync.NewCond(l) }
func OnceFunc(f func()) func() {
	var o Once
	return func() { o.Do(f) }
}
