// Package eng is the bounded-exhaustive exploration runner: parallel product enumeration,
// cell accounting, violation/replay/known-finding plumbing and evidence writing.
package eng

import (
	"encoding/json"
	"fmt"
	"os"
	"path/filepath"
	"runtime"
	"runtime/debug"
	"sort"
	"strings"
	"sync"
	"sync/atomic"
	"time"
)

// Case is one concrete evaluation, self-contained enough to be replayed.
type Case struct {
	Prop string   `json:"property"`
	Op   string   `json:"op"`
	Args []string `json:"args"`
	Mode string   `json:"mode,omitempty"`
	DRM  string   `json:"default_rounding_mode,omitempty"`
	Got  string   `json:"got"`
	Want string   `json:"want"`
	Note string   `json:"note,omitempty"`
}

func (c Case) Key() string {
	return c.Op + "|" + strings.Join(c.Args, ",") + "|" + c.Mode + "|" + c.DRM
}

type Known struct {
	Status   string   `json:"status"` // "known" | "fixed"
	Property string   `json:"property"`
	ID       string   `json:"id"`
	What     string   `json:"what"`
	Commit   string   `json:"commit,omitempty"`
	File     string   `json:"file,omitempty"` // tsv under /verif/known: key \t got
	Cases    []KCase  `json:"cases,omitempty"`
	Ops      []string `json:"ops,omitempty"`
}
type KCase struct {
	Key string `json:"key"`
	Got string `json:"got"`
}

type knownRef struct {
	k   *Known
	got string
}

type Run struct {
	Prop, Tier, Level string
	Seed              int64
	Root              string
	Rule              string
	Assumptions       []string
	Extra             map[string]any
	Exhaustive        bool
	Bounds            map[string]any

	start       time.Time
	evals       atomic.Int64
	nontriv     atomic.Int64
	States      atomic.Int64
	Transitions atomic.Int64
	Traces      atomic.Int64

	mu         sync.Mutex
	cells      map[string]int64
	ntcells    map[string]bool
	samples    map[string]any
	violations []Case
	nviol      atomic.Int64
	knownIdx   map[string]knownRef
	knownHits  map[string]int
	knownList  []*Known
	selfErr    []string
	required   []string
	stop       atomic.Bool
	stopAt     int
	workers    []*W
	MaxViol    int
	Phases     []map[string]any
}

// W is a worker-local view.
type W struct {
	R       *Run
	ID      int
	evals   int64
	nontriv int64
	cells   map[string]int64
	nt      map[string]bool
	samples map[string]any
	prog    atomic.Int64
	Cur     Cur
}

// Cur is the case in flight (plain fields: written by the worker on every call without allocating,
// read by the panic handler and, racily, by the hang watchdog).
type Cur struct {
	Op, Mode, S string
	A, B        [16]byte
	NA          int // number of bit-pattern args in use (0..2)
	I           int64
	HasI        bool
}

func (c *Cur) args() []string {
	var a []string
	if c.NA >= 1 {
		a = append(a, fmt.Sprintf("%x", c.A[:]))
	}
	if c.NA >= 2 {
		a = append(a, fmt.Sprintf("%x", c.B[:]))
	}
	if c.S != "" {
		a = append(a, c.S)
	}
	if c.HasI {
		a = append(a, fmt.Sprint(c.I))
	}
	return a
}

func NewRun(prop, tier, level, root string, seed int64) *Run {
	r := &Run{Prop: prop, Tier: tier, Level: level, Root: root, Seed: seed, start: time.Now(),
		cells: map[string]int64{}, ntcells: map[string]bool{}, samples: map[string]any{},
		knownIdx: map[string]knownRef{}, knownHits: map[string]int{}, Extra: map[string]any{},
		Bounds: map[string]any{}, Exhaustive: true, MaxViol: 40}
	if v := os.Getenv("VERIF_MAXVIOL"); v != "" {
		fmt.Sscan(v, &r.MaxViol)
	}
	if v := os.Getenv("VERIF_STOPAT"); v != "" {
		fmt.Sscan(v, &r.stopAt)
	}
	r.loadKnown()
	go r.watchdog()
	return r
}

func (r *Run) Thorough() bool { return r.Tier == "thorough" }

func (r *Run) loadKnown() {
	b, err := os.ReadFile(filepath.Join(r.Root, "known_findings.json"))
	if err != nil {
		return
	}
	var ks []*Known
	if err := json.Unmarshal(b, &ks); err != nil {
		fmt.Fprintln(os.Stderr, "known_findings.json:", err)
		os.Exit(2)
	}
	for _, k := range ks {
		if k.Property != r.Prop || k.Status != "known" {
			continue
		}
		r.knownList = append(r.knownList, k)
		for _, c := range k.Cases {
			r.knownIdx[c.Key] = knownRef{k, c.Got}
		}
		if k.File != "" {
			fb, err := os.ReadFile(filepath.Join(r.Root, "known", k.File))
			if err != nil {
				fmt.Fprintln(os.Stderr, "known file:", err)
				os.Exit(2)
			}
			for _, ln := range strings.Split(string(fb), "\n") {
				if ln == "" || ln[0] == '#' {
					continue
				}
				p := strings.SplitN(ln, "\t", 2)
				if len(p) == 2 {
					r.knownIdx[p[0]] = knownRef{k, p[1]}
				}
			}
		}
	}
}

// Par runs fn(w, i) for i in [0,n) on all cores with dynamic distribution.
func (r *Run) Par(n int, fn func(w *W, i int)) {
	nw := runtime.NumCPU()
	if nw > n {
		nw = n
	}
	if nw < 1 {
		nw = 1
	}
	var next atomic.Int64
	var wg sync.WaitGroup
	ws := make([]*W, nw)
	for k := 0; k < nw; k++ {
		w := &W{R: r, ID: k, cells: map[string]int64{}, nt: map[string]bool{}, samples: map[string]any{}}
		ws[k] = w
	}
	r.mu.Lock()
	r.workers = ws
	r.mu.Unlock()
	for k := 0; k < nw; k++ {
		wg.Add(1)
		go func(w *W) {
			defer wg.Done()
			for {
				i := int(next.Add(1) - 1)
				if i >= n || r.stop.Load() {
					return
				}
				w.safe(func() { fn(w, i) })
			}
		}(ws[k])
	}
	wg.Wait()
	r.mu.Lock()
	r.workers = nil
	for _, w := range ws {
		r.evals.Add(w.evals)
		r.nontriv.Add(w.nontriv)
		for k, v := range w.cells {
			r.cells[k] += v
		}
		for k := range w.nt {
			r.ntcells[k] = true
		}
		for k, v := range w.samples {
			if _, ok := r.samples[k]; !ok {
				r.samples[k] = v
			}
		}
	}
	r.mu.Unlock()
}

// Seq runs fn once on a single worker (for phases that must be single-threaded).
func (r *Run) Seq(fn func(w *W)) {
	r.Par(1, func(w *W, _ int) { fn(w) })
}

func (w *W) safe(fn func()) {
	defer func() {
		if e := recover(); e != nil {
			if msg := fmt.Sprint(e); strings.HasPrefix(msg, "harness:") || strings.HasPrefix(msg, "oracle:") {
				w.R.SelfFail("machinery panic (not a property violation): %s", msg)
				return
			}
			c := Case{Prop: w.R.Prop, Op: "panic", Got: fmt.Sprint("panic: ", e), Want: "no panic"}
			if w.Cur.Op != "" {
				c.Op = w.Cur.Op
				c.Args = w.Cur.args()
				c.Mode = w.Cur.Mode
			}
			st := string(debug.Stack())
			if len(st) > 1500 {
				st = st[:1500]
			}
			c.Note = st
			w.R.Fail(c)
		}
	}()
	fn()
}

// Set2 records the case in flight (for panic and hang attribution) without allocating.
func (w *W) Set2(op, mode string, a, b [16]byte) {
	w.Cur.Op, w.Cur.Mode, w.Cur.A, w.Cur.B, w.Cur.NA, w.Cur.S, w.Cur.HasI = op, mode, a, b, 2, "", false
}
func (w *W) Set1(op, mode string, a [16]byte) {
	w.Cur.Op, w.Cur.Mode, w.Cur.A, w.Cur.NA, w.Cur.S, w.Cur.HasI = op, mode, a, 1, "", false
}
func (w *W) Set1I(op, mode string, a [16]byte, i int64) {
	w.Cur.Op, w.Cur.Mode, w.Cur.A, w.Cur.NA, w.Cur.S, w.Cur.I, w.Cur.HasI = op, mode, a, 1, "", i, true
}
func (w *W) SetS(op, mode, s string) {
	w.Cur.Op, w.Cur.Mode, w.Cur.NA, w.Cur.S, w.Cur.HasI = op, mode, 0, s, false
}

// Eval counts one evaluation.
func (w *W) Eval()         { w.evals++; w.prog.Add(1) }
func (w *W) EvalN(n int64) { w.evals += n; w.prog.Add(1) }

// Cell counts an evaluation into an oracle-side cell; returns true the first time this worker sees it.
func (w *W) Cell(name string, nontrivial bool) bool {
	n := w.cells[name]
	if n == 0 {
		w.autoSample(name)
	}
	w.cells[name] = n + 1
	if nontrivial {
		w.nontriv++
		if !w.nt[name] {
			w.nt[name] = true
		}
	}
	return n == 0
}

// CellN adds n evaluations to a cell (evaluations themselves are counted by Eval/EvalN).
func (w *W) CellN(name string, n int64, nontrivial bool) {
	if w.cells[name] == 0 {
		w.autoSample(name)
	}
	w.cells[name] += n
	if nontrivial {
		w.nontriv += n
		w.nt[name] = true
	}
}

// autoSample records the case in flight as the sample of a cell seen for the first time (an explicit Sample wins).
func (w *W) autoSample(cell string) {
	if _, ok := w.samples[cell]; ok || w.Cur.Op == "" {
		return
	}
	m := map[string]any{"op": w.Cur.Op, "args": w.Cur.args()}
	if w.Cur.Mode != "" {
		m["mode"] = w.Cur.Mode
	}
	w.samples[cell] = m
}

func (w *W) Sample(cell string, v any) { w.samples[cell] = v }

func (w *W) Stopped() bool { return w.R.stop.Load() }

// Fail records a disagreement: a known finding if pinned, otherwise a violation.
func (r *Run) Fail(c Case) {
	c.Prop = r.Prop
	r.mu.Lock()
	defer r.mu.Unlock()
	if kr, ok := r.knownIdx[c.Key()]; ok && kr.got == c.Got {
		r.knownHits[kr.k.ID]++
		return
	}
	r.nviol.Add(1)
	if len(r.violations) < r.MaxViol {
		r.violations = append(r.violations, c)
	}
	if int(r.nviol.Load()) >= 2000 && r.MaxViol <= 40 {
		r.stop.Store(true)
	}
	if r.stopAt > 0 && int(r.nviol.Load()) >= r.stopAt { // dev-time (mutation sweep): first violation is enough
		r.stop.Store(true)
	}
}

// SelfCheck failure: the machinery (oracle/harness) is wrong or vacuous: exit 2, never a VIOLATION.
func (r *Run) SelfFail(format string, a ...any) {
	r.mu.Lock()
	r.selfErr = append(r.selfErr, fmt.Sprintf(format, a...))
	r.mu.Unlock()
}

// Require lists cells that must be reached (non-vacuity).
func (r *Run) Require(cells ...string) { r.required = append(r.required, cells...) }

func (r *Run) Phase(name string, t0 time.Time, extra map[string]any) {
	m := map[string]any{"name": name, "wall_s": time.Since(t0).Seconds(), "evaluations_so_far": r.evals.Load()}
	for k, v := range extra {
		m[k] = v
	}
	r.mu.Lock()
	r.Phases = append(r.Phases, m)
	r.mu.Unlock()
}

func (r *Run) Evals() int64 { return r.evals.Load() }

func (r *Run) watchdog() {
	last := map[*W]int64{}
	stuck := map[*W]int{}
	for {
		time.Sleep(5 * time.Second)
		r.mu.Lock()
		ws := r.workers
		r.mu.Unlock()
		for _, w := range ws {
			p := w.prog.Load()
			if p == last[w] && w.Cur.Op != "" {
				stuck[w]++
			} else {
				stuck[w] = 0
			}
			last[w] = p
			if stuck[w] >= 24 { // 120 s without progress
				c := Case{Op: w.Cur.Op, Mode: w.Cur.Mode, Got: "no return after 120s (hang)", Want: "terminates"}
				c.Args = w.Cur.args()
				r.Fail(c)
				r.Exhaustive = false
				os.Exit(r.Finish())
			}
		}
	}
}

type evidence struct {
	Property    string         `json:"property_id"`
	Tier        string         `json:"tier"`
	Seed        int64          `json:"seed"`
	Level       string         `json:"level"`
	Coverage    map[string]any `json:"coverage"`
	Assumptions []string       `json:"assumptions"`
	Wall        float64        `json:"wall_s"`
	Violations  int            `json:"violations"`
	Known       []string       `json:"known_findings_fired,omitempty"`
}

// Finish writes evidence and replay files, prints VIOLATION / KNOWN-FINDING lines and returns the exit code.
func (r *Run) Finish() int {
	r.mu.Lock()
	defer r.mu.Unlock()
	for _, c := range r.required {
		if r.cells[c] == 0 {
			// allow prefix requirement "x*"
			ok := false
			if strings.HasSuffix(c, "*") {
				for k := range r.cells {
					if strings.HasPrefix(k, c[:len(c)-1]) {
						ok = true
						break
					}
				}
			}
			if !ok {
				r.selfErr = append(r.selfErr, "required cell never reached: "+c)
			}
		}
	}
	cov := map[string]any{}
	cov["evaluations"] = r.evals.Load()
	cov["distinct_nontrivial"] = len(r.ntcells)
	cov["nontrivial_evaluations"] = r.nontriv.Load()
	cov["distinct_cells"] = len(r.cells)
	cov["rule"] = r.Rule
	cov["exhaustive"] = r.Exhaustive && !r.stop.Load()
	cov["bounds"] = r.Bounds
	if len(r.Phases) > 0 {
		cov["phases"] = r.Phases
	}
	for k, v := range r.Extra {
		cov[k] = v
	}
	if r.Level == "model_checking" {
		cov["states"] = r.States.Load()
		cov["transitions"] = r.Transitions.Load()
	}
	cov["traces_validated_against_impl"] = r.Traces.Load()
	// samples: a bounded, deterministic selection
	keys := make([]string, 0, len(r.samples))
	for k := range r.samples {
		keys = append(keys, k)
	}
	sort.Strings(keys)
	var samples []any
	step := 1
	if len(keys) > 24 {
		step = len(keys) / 24
	}
	for i := 0; i < len(keys); i += step {
		samples = append(samples, map[string]any{"cell": keys[i], "case": r.samples[keys[i]]})
	}
	if len(samples) == 0 {
		samples = append(samples, "no sample recorded")
	}
	cov["samples"] = samples
	// cell histogram (bounded)
	ck := make([]string, 0, len(r.cells))
	for k := range r.cells {
		ck = append(ck, k)
	}
	sort.Strings(ck)
	if len(ck) <= 3000 {
		h := map[string]int64{}
		for _, k := range ck {
			h[k] = r.cells[k]
		}
		cov["cells"] = h
	}
	nv := int(r.nviol.Load())
	ev := evidence{Property: r.Prop, Tier: r.Tier, Seed: r.Seed, Level: r.Level, Coverage: cov,
		Assumptions: r.Assumptions, Wall: time.Since(r.start).Seconds(), Violations: nv}
	if ev.Assumptions == nil {
		ev.Assumptions = []string{}
	}
	var kids []string
	for id := range r.knownHits {
		kids = append(kids, id)
	}
	sort.Strings(kids)
	ev.Known = kids
	code := 0
	if len(r.selfErr) > 0 {
		cov["self_check_errors"] = r.selfErr
		code = 2
	}
	os.MkdirAll(filepath.Join(r.Root, "evidence"), 0o755)
	os.MkdirAll(filepath.Join(r.Root, "replays"), 0o755)
	for i, c := range r.violations {
		p := filepath.Join(r.Root, "replays", fmt.Sprintf("%s-%d.json", r.Prop, i))
		b, _ := json.MarshalIndent(c, "", " ")
		os.WriteFile(p, b, 0o644)
		if i < 10 {
			fmt.Printf("VIOLATION property=%s replay=%s\n", r.Prop, p)
			fmt.Printf("  %s(%s) mode=%s drm=%s\n   got  %s\n   want %s %s\n", c.Op, strings.Join(c.Args, ", "), c.Mode, c.DRM, trunc(c.Got), trunc(c.Want), firstLine(c.Note))
		}
	}
	if nv > 0 {
		code = 1
		fmt.Printf("%s: %d violations (first %d written to replays/)\n", r.Prop, nv, len(r.violations))
	}
	for _, k := range r.knownList {
		if r.knownHits[k.ID] > 0 {
			fmt.Printf("KNOWN-FINDING: property=%s %s: %s (%d pinned cases reproduced)\n", r.Prop, k.ID, k.What, r.knownHits[k.ID])
		}
	}
	for _, e := range r.selfErr {
		fmt.Printf("SELF-CHECK-FAILED %s: %s\n", r.Prop, e)
	}
	b, _ := json.MarshalIndent(ev, "", " ")
	os.WriteFile(filepath.Join(r.Root, "evidence", r.Prop+".json"), b, 0o644)
	fmt.Printf("%s %s: evaluations=%d cells=%d nontrivial_cells=%d violations=%d known=%d wall=%.1fs exit=%d\n",
		r.Prop, r.Tier, r.evals.Load(), len(r.cells), len(r.ntcells), nv, len(kids), ev.Wall, code)
	return code
}

func trunc(s string) string {
	if len(s) > 300 {
		return s[:300] + "…"
	}
	return s
}
func firstLine(s string) string {
	if i := strings.IndexByte(s, '\n'); i >= 0 {
		return s[:i]
	}
	return s
}
