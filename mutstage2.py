#!/usr/bin/env python3
"""Dev-time: stage 2 of the mutation sweep (see mutsweep.sh). For each change the repository's suite
accepts, run the quick checks most likely to see it (mapped by file/function) with an early stop at the
first violation; ALL=1 continues with every other check for changes still unreported.
Never touches /repo (VERIF_REPO scratch copies). Appends to $MS/stage2.tsv."""
import os, re, subprocess, sys, hashlib, shutil

MS = os.environ.get("MS", "/tmp/mutsweep")
ALLP = ["C12", "C14", "C11", "C04", "C08", "C15", "C13", "C10", "C01", "C02", "C05", "C06", "C07", "C17", "C16", "C09", "C03", "C19", "C20", "C18"]

def mapped(file, fn):
    f = fn.split(".")[-1]
    if file == "arith.go":
        if re.match(r"(Add|Sub|add)", f): return ["C01", "C19", "C15"]
        if re.match(r"QuoRem", f): return ["C03", "C15", "C19"]
        if re.match(r"(Mul|Quo)", f): return ["C02", "C15", "C19"]
        if re.match(r"Pow", f): return ["C18", "C15", "C19"]
        return ["C15", "C19", "C01", "C02", "C18"]
    if file == "rounding.go":
        if f in ("Round", "Ceil", "Floor", "Trunc") or "Round" in f or "round" == f: return ["C08", "C01", "C02"]
        if f in ("reduce64",): return ["C11", "C10", "C09", "C05"]
        if f in ("reduce128",): return ["C01", "C02", "C05", "C11", "C10"]
        if f in ("reduce192", "reduce256"): return ["C02", "C16", "C18", "C17", "C09", "C10"]
        return ["C01", "C02", "C08", "C05", "C11", "C10"]
    if file == "compare.go": return ["C04", "C19", "C15"]
    if file == "compose.go": return ["C14", "C20"]
    if file == "convert.go":
        if re.match(r"(FromFloat|Float)", f): return ["C09", "C19"]
        if re.match(r"(New|Ldexp|Frexp)", f): return ["C11", "C19"]
        return ["C10", "C09", "C19"]
    if file == "scan.go": return ["C05", "C13", "C06"]
    if file == "format.go": return ["C07", "C06", "C13", "C20"]
    if file == "binary.go": return ["C12"]
    if file == "json.go": return ["C13"]
    if file == "payload.go": return ["C15"]
    if file == "decimal.go": return ["C19", "C11", "C15", "C12", "C04"]
    if file == "exp.go":
        if f in ("Sqrt", "Cbrt"): return ["C17", "C15"]
        return ["C16", "C15", "C18"]
    if file == "decomposed.go": return ["C16", "C18", "C17"]
    if file == "int.go":
        if fn.startswith("uint128"): return ["C02", "C01", "C05", "C07", "C17", "C03", "C16"]
        if fn.startswith("uint192"): return ["C16", "C17", "C18", "C02"]
        if fn.startswith("uint256"): return ["C02", "C16", "C17", "C18"]
        return ["C16", "C17", "C18", "C02"]
    return []

def main():
    done = set()
    p2 = os.path.join(MS, "stage2.tsv")
    if os.path.exists(p2):
        for l in open(p2):
            done.add(l.split("\t")[0])
    rows = [l.rstrip("\n").split("\t") for l in open(os.path.join(MS, "stage1.tsv"))]
    rows = sorted(r for r in rows if r[1] == "survives")
    only = os.environ.get("ONLY")
    if os.environ.get("REVERSE"):
        rows.reverse()
    for r in rows:
        mid, _, loc, fn, desc = r[0], r[1], r[2], r[3], r[4]
        if os.path.exists(p2) and any(l.startswith(mid + "\t") for l in open(p2)):
            continue
        if mid in done or (only and not re.search(only, "\t".join(r))):
            continue
        w = os.path.join(MS, "w-" + mid)
        if not os.path.isdir(w):
            continue
        file = loc.split(":")[0]
        first = mapped(file, fn)
        props = first + ([p for p in ALLP if p not in first] if os.environ.get("ALL") else [])
        res = "MISSED"
        env = dict(os.environ, VERIF_REPO=w, VERIF_MAXVIOL="1", VERIF_STOPAT="1")
        for p in props:
            try:
                pr = subprocess.run(["./check.sh", p, "quick"], env=env, capture_output=True, timeout=900)
                out = pr.stdout.decode("utf8", "replace")
                if pr.returncode == 1 and ("VIOLATION property=" + p) in out:
                    res = "DETECTED " + p; break
                if pr.returncode != 0:
                    res = "SELFCHECK " + p; break
            except subprocess.TimeoutExpired:
                subprocess.run(["pkill", "-f", "alt-" + hashlib.md5((w + "\n").encode()).hexdigest()[:10] + "/verifmc"])
                res = "TIMEOUT " + p; break
        if res == "MISSED":
            res = "MISSED " + ",".join(props)
        with open(p2, "a") as f:
            f.write("\t".join([mid, res, loc, fn, desc]) + "\n")
        shutil.rmtree(os.path.join("/verif/.work", "alt-" + hashlib.md5((w + "\n").encode()).hexdigest()[:10]), ignore_errors=True)
        if res.startswith("DETECTED"):
            shutil.rmtree(w, ignore_errors=True)

if __name__ == "__main__":
    os.chdir("/verif")
    main()
