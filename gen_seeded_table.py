#!/usr/bin/env python3
"""dev-time: regenerate the seeded-changes table in DESIGN.md (between the SEEDED-TABLE markers) from seeded/*/meta.json"""
import json,glob,os,re
rows=[];n=0;first=0;sup=0
for d in sorted(glob.glob('/verif/seeded/*'), key=lambda x:(x.split('/')[-1].split('-')[0], int(x.split('-')[-1]))):
    m=json.load(open(d+'/meta.json')); n+=1
    desc=re.sub(r'\s+',' ',m.get('description','')).replace('|','/')
    if len(desc)>170: desc=desc[:167]+'...'
    if 'history' in m: st='after strengthening'
    else: st='first run'; first+=1
    if 'superseded' in m: st+=' (superseded by a later fix: no longer applies)'; sup+=1
    rows.append('| %s | %s | %s |'%(os.path.basename(d),desc,st))
s=open('/verif/DESIGN.md').read()
a=s.index('<!-- SEEDED-TABLE-BEGIN -->'); b=s.index('<!-- SEEDED-TABLE-END -->')
tbl='<!-- SEEDED-TABLE-BEGIN -->\n%d seeded changes, %d detected on the first run of the owning quick check, %d only after the check was strengthened, %d superseded.\n\n| seeded change | what was changed (agent\'s description) | detected |\n|---|---|---|\n'%(n,first,n-first,sup)+'\n'.join(rows)+'\n'
open('/verif/DESIGN.md','w').write(s[:a]+tbl+s[b:])
print(n,first,n-first,sup)
