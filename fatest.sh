#!/bin/bash
# dev-time: false-alarm test. Applies a behaviour-preserving change (patch.diff in <dir>) to a scratch worktree and runs
# every property's quick check against it; any VIOLATION / SELF-CHECK-FAILED / BUILD-FAILED is printed.
M=$(readlink -f $1); cd "$(dirname "$0")"
WT=/tmp/fawt.$$
git -C /repo worktree add -q --detach $WT ${BASE:-HEAD} || exit 2
trap 'git -C /repo worktree remove --force $WT; rm -rf .work/alt-$(echo $WT | md5sum | cut -c1-10)' EXIT
git -C $WT apply $M/patch.diff || { echo "FA $M: PATCH-DOES-NOT-APPLY"; exit 3; }
bad=0
for p in $(jq -r '.checks[].property_id' MANIFEST.json); do
  out=$(VERIF_REPO=$WT timeout 3000 ./check.sh $p quick 2>&1); code=$?
  if [ $code -ne 0 ]; then bad=1; echo "FA $(basename $(dirname $M))/$(basename $M) $p exit=$code"; echo "$out" | grep -aE "^VIOLATION|^  |^   |SELF-CHECK|BUILD-FAILED" | head -8; fi
done
[ $bad -eq 0 ] && echo "FA $(basename $(dirname $M))/$(basename $M): all 20 quick checks silent"
