#!/bin/bash
# dev-time: take a round-4 agent output (/tmp/r4/<P>/out/{a,b}) into a staging dir and validate + run the owning check.
# usage: ./r4take.sh C08   -> results appended to /tmp/r4/results.txt
P=$1; cd "$(dirname "$0")"
n=7
for v in a b; do
  src=/tmp/r4/$P/out/$v
  [ -f $src/patch.diff ] || { echo "RESULT $P-$n: NO-OUTPUT" | tee -a /tmp/r4/results.txt; n=$((n+1)); continue; }
  dst=/tmp/r4/stage/$P-$n; rm -rf $dst; mkdir -p $dst; cp $src/patch.diff $src/demo_test.go $src/meta.json $dst/ 2>/dev/null
  ./seedtest.sh $P $dst quick 2>&1 | tee $dst/seedtest.log | grep -aE "^RESULT" | tee -a /tmp/r4/results.txt
  n=$((n+1))
done
