#!/usr/bin/env python3
"""dev-time helper: pin the violations currently in replays/<prop>-*.json (optionally filtered by op regex) as a known finding.
usage: pin.py <prop> <finding-id> <what> [op-regex]   -- never run by checks."""
import json,glob,sys,re,os
prop,fid,what=sys.argv[1:4]
rx=re.compile(sys.argv[4]) if len(sys.argv)>4 else None
nrx=re.compile(sys.argv[5]) if len(sys.argv)>5 else None   # optional: regex the note must match
nnrx=re.compile(sys.argv[6]) if len(sys.argv)>6 else None  # optional: regex the note must NOT match
cases=[]
for f in sorted(glob.glob('replays/%s-*.json'%prop)):
    c=json.load(open(f))
    if rx and not rx.search(c['op']): continue
    if nrx and not nrx.search(c.get('note','')): continue
    if nnrx and nnrx.search(c.get('note','')): continue
    key=c['op']+'|'+','.join(c.get('args') or [])+'|'+c.get('mode','')+'|'+c.get('default_rounding_mode','')
    cases.append((key,c['got']))
k=json.load(open('known_findings.json'))
# merge with what is already pinned under this id (a run with the pins active only reports the new cases)
for e in k:
    if e['id']==fid:
        for c in e.get('cases',[]): cases.append((c['key'],c['got']))
        if e.get('file') and os.path.exists('known/'+e['file']):
            for ln in open('known/'+e['file']):
                if ln.strip() and not ln.startswith('#'):
                    a,b=ln.rstrip('\n').split('\t',1); cases.append((a,b))
cases=sorted(set(cases))
k=[e for e in k if e['id']!=fid]
e={"status":"known","property":prop,"id":fid,"what":what}
if len(cases)<=40:
    e["cases"]=[{"key":a,"got":b} for a,b in cases]
else:
    e["file"]=fid+".tsv"
    open('known/'+fid+'.tsv','w').write(''.join('%s\t%s\n'%c for c in cases))
k.append(e)
json.dump(k,open('known_findings.json','w'),indent=1)
print('pinned',len(cases),'cases for',fid)
