#!/bin/bash
# Dev-time mutation sweep (never touches /repo; not a registered check).
#   ./mutsweep.sh gen N [offset]     enumerate first-order changes, keep N evenly strided ones under $MS/muts
#   ./mutsweep.sh stage1 [P]         for each: copy of /repo + the changed file; build; repository suite.
#                                    -> $MS/stage1.tsv  (id, nobuild|suite-kills|suite-timeout|survives, description)
#   ./mutsweep.sh stage2             for each change the suite accepts: the quick checks, mapped ones first,
#                                    until one reports it -> $MS/stage2.tsv (id, DETECTED <prop>|SELFCHECK <prop>|MISSED, description)
# Results are copied to /verif/mutsweep/ by hand when a sweep is complete.
cd "$(dirname "$0")"
export GOFLAGS=-mod=mod GOPROXY=off GOSUMDB=off GOTOOLCHAIN=local
MS=${MS:-/tmp/mutsweep}
mkdir -p $MS
case "$1" in
gen)
  ( cd mc && GOCACHE=/verif/.work/gocache go build -o /verif/.work/mutgen ./cmd/mutgen ) || exit 2
  rm -rf $MS/muts; /verif/.work/mutgen -repo /repo -out $MS/muts -n ${2:-500} -offset ${3:-0}
  ;;
one1)
  m=$2; id=$(basename $m); w=$MS/w-$id
  rm -rf $w; mkdir -p $w; (cd /repo && tar cf - --exclude=.git .) | (cd $w && tar xf -)
  f=$(ls $m | grep '\.go$'); cp $m/$f $w/$f
  desc=$(cat $m/desc.txt)
  if ! (cd $w && go build ./... >/dev/null 2>&1); then r=nobuild
  else
    out=$(cd $w && timeout 400 go test -vet=off -count=1 -failfast . 2>&1); c=$?
    if [ $c -eq 124 ]; then r=suite-timeout; elif [ $c -ne 0 ]; then r=suite-kills; else r=survives; fi
  fi
  [ $r != survives ] && rm -rf $w
  printf "%s\t%s\t%s\n" "$id" "$r" "$desc" >> $MS/stage1.tsv
  ;;
stage1)
  touch $MS/stage1.tsv
  for m in $MS/muts/m*; do grep -q "^$(basename $m)	" $MS/stage1.tsv || echo $m; done | xargs -P ${2:-6} -n 1 $0 one1
  cut -f2 $MS/stage1.tsv | sort | uniq -c
  ;;
stage2)
  touch $MS/stage2.tsv
  grep -P "\tsurvives\t" $MS/stage1.tsv | sort | while IFS=$'\t' read id r desc; do
    grep -q "^$id	" $MS/stage2.tsv && continue
    w=$MS/w-$id; [ -d $w ] || continue
    file=$(echo "$desc" | cut -d: -f1)
    case $file in
      arith.go)      first="C01 C02 C03 C15 C18 C19";;
      rounding.go)   first="C01 C02 C08 C05 C11 C10 C03";;
      compare.go)    first="C04 C19 C15";;
      compose.go)    first="C14 C20";;
      convert.go)    first="C09 C10 C11 C19";;
      scan.go)       first="C05 C13 C06";;
      format.go)     first="C06 C07 C13 C20";;
      binary.go)     first="C12";;
      json.go)       first="C13";;
      payload.go)    first="C15";;
      decimal.go)    first="C19 C11 C15 C12 C04";;
      exp.go)        first="C16 C17 C15 C18";;
      decomposed.go) first="C16 C18 C17";;
      int.go)        first="C02 C16 C17 C01 C05 C07 C18 C03";;
      *)             first="";;
    esac
    rest=""; for p in C12 C14 C11 C04 C08 C15 C13 C10 C01 C02 C05 C06 C07 C17 C16 C09 C03 C19 C20 C18; do
      case " $first " in *" $p "*) ;; *) rest="$rest $p";; esac; done
    res=MISSED
    [ -n "$ALL" ] || rest=""
    for p in $first $rest; do
      out=$(VERIF_REPO=$w VERIF_MAXVIOL=1 VERIF_STOPAT=1 timeout 900 ./check.sh $p quick 2>&1); c=$?
      if [ $c -eq 1 ] && echo "$out" | grep -aq "^VIOLATION property=$p"; then res="DETECTED $p"; break; fi
      if [ $c -eq 124 ]; then res="TIMEOUT $p"; break; fi
      if [ $c -ne 0 ]; then res="SELFCHECK $p"; break; fi
    done
    printf "%s\t%s\t%s\n" "$id" "$res" "$desc" >> $MS/stage2.tsv
    rm -rf .work/alt-$(echo $w | md5sum | cut -c1-10)
    case "$res" in MISSED*|SELFCHECK*|TIMEOUT*) ;; *) rm -rf $w;; esac
  done
  cut -f2 $MS/stage2.tsv | cut -d' ' -f1 | sort | uniq -c
  ;;
esac
