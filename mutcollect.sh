#!/bin/bash
# Dev-time: copy the mutation sweep's outcome tables and triage verdicts from scratch space into /verif/mutsweep/.
cd "$(dirname "$0")"; MS=${MS:-/tmp/mutsweep}; mkdir -p mutsweep/triage
sort $MS/stage1.tsv > mutsweep/stage1.tsv
sort $MS/stage2.tsv > mutsweep/stage2.tsv
for d in /tmp/tri/[a-h]*/; do b=$(basename $d); [ -f $d/triage.json ] || continue
  cp $d/triage.json mutsweep/triage/$b.json
  for f in $d/zz_m*_test.go; do [ -f "$f" ] && cp $f mutsweep/triage/$(basename $f .go).go.txt; done
done
python3 - <<'PY'
import json,glob,collections
c=collections.Counter()
for f in glob.glob('/verif/mutsweep/triage/*.json'):
    try:
        for e in json.load(open(f)): c[e.get('verdict')]+=1
    except Exception as ex: print('bad',f,ex)
print(dict(c))
PY
