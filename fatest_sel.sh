#!/bin/bash
# dev-time: like fatest.sh, but only the listed properties:  ./fatest_sel.sh <dir> C01 C19 ...
M=$(readlink -f $1); shift; cd "$(dirname "$0")"
WT=/tmp/fawt.$$
git -C /repo worktree add -q --detach $WT ${BASE:-HEAD} || exit 2
trap 'git -C /repo worktree remove --force $WT; rm -rf .work/alt-$(echo $WT | md5sum | cut -c1-10)' EXIT
git -C $WT apply $M/patch.diff || { echo "FA $M: PATCH-DOES-NOT-APPLY"; exit 3; }
bad=0
for p in "$@"; do
  out=$(VERIF_REPO=$WT timeout 3000 ./check.sh $p quick 2>&1); code=$?
  if [ $code -ne 0 ]; then bad=1; echo "FA $(basename $M) $p exit=$code"; echo "$out" | grep -aE "^VIOLATION|^  |^   |SELF-CHECK|BUILD-FAILED" | head -8; fi
done
[ $bad -eq 0 ] && echo "FA $(basename $M): silent on $*"
